"""C10 -- SQLite store round-trips problem and individuals; one row per id, last wins.
PARTIAL CLAIM (scope stated in META and in MANIFEST.level_note).

What is decided: that the Python-level codec (Individual.to_dict / from_dict, the JSON
documents built by SqliteDataStore) and the SQL statements issued keep every field of every
individual attached to the right id, and that a re-sync replaces.  The real to_dict,
json.dumps, sqlite3 (temporary file in a private scratch directory), read_from_datastore,
json.loads and from_dict run; symbolic float leaves cross the text boundary as unique
string tokens (json `default=` hook installed through a module-global shim of
artap.datastore.json) and are mapped back after json.loads.  The obligation
`returned leaf == last synced leaf` is then decided by z3 for all values: a first-wins
conflict clause, swapped / dropped / truncated fields yield a model with distinct values,
which is replayed with real doubles through the real store.

NOT claimed: bit-exactness of float.__repr__ <-> float() (checked only on the replay /
validation runs with real doubles, i.e. sampled), the SQLite engine, durability.
"""
import json as _json
import math
import os
import tempfile

from symx import core, ops, stubs
from symx.ops import And, Or, Not
from . import common, evalcommon as ec

PROPERTY = 'C10'

META = {
    'bounds': {'quick': 'sweep runs with default / gradient / worst-case evaluator and a store; stores with 9/14 (11/23) individuals (one with solver choices); in-place update histories; histories of <=3 sync_individual / sync_all operations over <=2 individuals with ids from a 3-value range (repeated ids '
                        'included), a mutation of the individual between syncs; dim 2, 2 objectives; feature kinds written by the framework '
                        '(floats, inf, ints, lists of floats, lists of ids, parent/child references, nested custom data); problem definition with symbolic bounds; '
                        'one NSGA-II skeleton run (N=3, G=2) with the store attached',
               'thorough': 'histories of <=4 operations over <=3 individuals; skeleton runs for NSGA-II, epsilon-MOEA, SMPSO'},
    'stubs': ['artap.datastore.json -> real json with a default= hook that turns symbolic float leaves into unique string tokens, '
              'and a loads() that maps the tokens back'],
    'assumptions': ['PARTIAL: float text round trip (repr/float) and the SQLite engine are trusted, not encoded; finite-float bit-exactness is observed only '
                    'on the concrete validation/replay runs', 'crash consistency and concurrent writers outside (C11, C07 not applicable)',
                    'state enum is stored as a string and not restored as an enum: not part of the property'],
    'undecided': ['bit-exact float round trip for ALL doubles (trusted: CPython repr is shortest-round-trip)', 'durability'],
}

TOKEN = '@@symx:%d@@'


def preload():
    common.preload_all()


class JsonShim(object):
    """Real json module with symbolic leaves tokenised."""

    def __init__(self):
        self.table = {}
        self.by_term = {}

    def reset(self):
        self.table = {}
        self.by_term = {}

    def _default(self, o):
        if isinstance(o, (core.SNum, core.SBool)):
            # one token per solver term: equal data serialises to equal text (as real floats would)
            key = o.t.get_id()
            tok = self.by_term.get(key)
            if tok is None:
                tok = TOKEN % len(self.table)
                self.by_term[key] = tok
                self.table[tok] = o
            return tok
        raise TypeError('Object of type %s is not JSON serializable' % type(o).__name__)

    def dumps(self, obj, *a, **kw):
        kw.setdefault('default', self._default)
        return _json.dumps(obj, *a, **kw)

    def loads(self, s, *a, **kw):
        return self._back(_json.loads(s, *a, **kw))

    def _back(self, v):
        if isinstance(v, str) and v in self.table:
            return self.table[v]
        if isinstance(v, list):
            return [self._back(x) for x in v]
        if isinstance(v, dict):
            return {k: self._back(x) for k, x in v.items()}
        return v

    def __getattr__(self, name):
        return getattr(_json, name)


def _differs(a, b):
    """Structural comparison of a returned value with the expected (last synced) one;
    returns a polymorphic boolean 'they differ'."""
    if isinstance(a, (list, tuple)) or isinstance(b, (list, tuple)):
        if not isinstance(a, (list, tuple)) or not isinstance(b, (list, tuple)) or len(a) != len(b):
            return True
        return Or(*[_differs(x, y) for x, y in zip(a, b)]) if a else False
    if isinstance(a, dict) or isinstance(b, dict):
        if not isinstance(a, dict) or not isinstance(b, dict) or sorted(a) != sorted(b):
            return True
        return Or(*[_differs(a[k], b[k]) for k in a]) if a else False
    if isinstance(a, (core.SNum, core.SBool)) or isinstance(b, (core.SNum, core.SBool)):
        if isinstance(a, str) or isinstance(b, str) or a is None or b is None:
            return True
        return a != b
    if isinstance(a, bool) or isinstance(b, bool):
        return not (isinstance(a, bool) and isinstance(b, bool) and a == b)
    if isinstance(a, float) and isinstance(b, float):
        if math.isnan(a) or math.isnan(b):
            return True
        return a != b          # bit-exact for finite floats, inf == inf
    if isinstance(a, (int, float)) and isinstance(b, (int, float)):
        return type(a) != type(b) and not (a == b) or a != b
    return a != b


def _snapshot(ind):
    """What a reader is entitled to get back for this individual (ids for references)."""
    def ids(v):
        from artap.individual import Individual
        if isinstance(v, Individual):
            return v.id
        if isinstance(v, (list, tuple)):
            return [ids(x) for x in v]
        if isinstance(v, dict):
            return {k: ids(x) for k, x in v.items()}
        return v
    return {'vector': list(ind.vector), 'costs': list(ind.costs), 'costs_signed': list(ind.costs_signed),
            'population_id': ind.population_id, 'custom': ids(ind.custom),
            'features': {k: ids(v) for k, v in ind.features.items()},
            'parents': [p.id for p in ind.parents], 'children': [c.id for c in ind.children]}


def _make_individual(ctx, tag, iid, other=None, rich=True, plain=False):
    from artap.individual import Individual
    ind = Individual([ctx.real('%s_x0' % tag), ctx.real('%s_x1' % tag)])
    ind.id = iid
    ind.costs = [ctx.real('%s_c0' % tag), ctx.real('%s_c1' % tag)]
    # plain: no solver choices (many individuals in one history; the float data stay symbolic)
    ind.costs_signed = [ctx.real('%s_s0' % tag), ctx.real('%s_s1' % tag), (iid % 2 == 0) if plain else bool(ctx.choice('%s_marker' % tag, 2))]
    ind.population_id = (iid % 3) - 1 if plain else ctx.choice('%s_pop' % tag, 3) - 1
    ind.algorithm_id = 'alg-%s' % tag
    ind.state = Individual.State.EVALUATED
    if plain:
        ind.features['crowding_distance'] = math.inf if iid % 4 == 0 else ctx.real('%s_cd' % tag)
        ind.custom = {'value': ctx.real('%s_cust' % tag)}
        return ind
    if rich:
        ind.features['crowding_distance'] = math.inf if ctx.choice('%s_cdinf' % tag, 2) else ctx.real('%s_cd' % tag)
        ind.features['front_number'] = 1 + ctx.choice('%s_front' % tag, 2)
        ind.features['velocity'] = [ctx.real('%s_v0' % tag), ctx.real('%s_v1' % tag)]
        ind.features['dominate'] = [7, 9]
        ind.features['finish_time'] = ctx.real('%s_t' % tag)
        ind.custom = {'note': 'text-%s' % tag, 'value': ctx.real('%s_cust' % tag), 'nested': {'list': [ctx.real('%s_n0' % tag), 1, 'txt', None, True]}}
        if other is not None:
            ind.parents = [other]
            other.children.append(ind)
            ind.features['best'] = [other]
    return ind


def _save(ind):
    return (list(ind.costs), list(ind.costs_signed), list(ind.vector), ind.population_id, dict(ind.features), dict(ind.custom))


def _restore(ind, saved):
    ind.costs, ind.costs_signed, ind.vector, ind.population_id = list(saved[0]), list(saved[1]), list(saved[2]), saved[3]
    ind.features, ind.custom = dict(saved[4]), dict(saved[5])


def _mutate(ctx, ind, tag):
    ind.costs = [ctx.real('%s_c0' % tag), ctx.real('%s_c1' % tag)]
    ind.costs_signed = [ctx.real('%s_s0' % tag), ctx.real('%s_s1' % tag), not ind.costs_signed[-1]]
    ind.vector = [ctx.real('%s_x0' % tag), ind.vector[1]]
    ind.population_id = ind.population_id + 1
    ind.features['crowding_distance'] = ctx.real('%s_cd' % tag)
    ind.custom = dict(ind.custom, value=ctx.real('%s_cust' % tag))


def _mutate_in_place(ctx, ind, tag):
    """Same kind of update, but every container is modified IN PLACE (no attribute is re-bound): what a swarm position
    update, a user's evaluate() adding custom data, or an archive writing a feature do.  A store that remembers the
    last written record by reference sees 'no change'."""
    ind.costs[0] = ctx.real('%s_c0' % tag)
    ind.costs_signed[0] = ctx.real('%s_s0' % tag)
    ind.vector[0] = ctx.real('%s_x0' % tag)
    if isinstance(ind.features.get('velocity'), list):
        ind.features['velocity'][0] = ctx.real('%s_v0' % tag)
    ind.custom['value'] = ctx.real('%s_cust' % tag)
    if isinstance(ind.custom.get('nested'), dict):
        ind.custom['nested']['list'][0] = ctx.real('%s_n0' % tag)
    ind.custom['added-%s' % tag] = [1, 'later']


def history(args):
    ops_list = args['ops']          # e.g. ['sync0', 'mut0', 'sync0', 'sync1', 'all']
    ninds = args['ninds']
    same_id = args.get('same_id', False)
    import artap.datastore as DS
    from artap.individual import Individual
    shim = JsonShim()
    stubs.install((DS, 'json', shim))
    prob = ec.make_problem(2, ('minimize', 'maximize'), 0)
    view = ec.make_problem(2, ('minimize',), 0)

    def body(ctx):
        ec.reset_problem(prob, ctx)
        shim.reset()
        # should the store key a dict/set on individuals (hash of the design vector): all symbolic numbers hash alike, Python
        # then falls back to == (symbolic fork).  Sound here: every vector entry in this harness is symbolic.
        ctx.hash_hook = lambda x: 0
        prob.name, prob.description = 'problem-name', 'descr'
        # names whose definition order differs from their lexicographic order (x_10 < x_2, stiffness < weight)
        for p_, nm in zip(prob.parameters, ('x_2', 'x_10')):
            p_['name'] = nm
        for c_, nm in zip(prob.costs, ('weight', 'stiffness')):
            c_['name'] = nm
        for i, p in enumerate(prob.parameters):
            p['bounds'] = [ctx.real('lb%d' % i), ctx.real('ub%d' % i)]
            p['extra'] = {'k': [1, 2.5, 'z']}
        fd, db = tempfile.mkstemp(suffix='.sqlite')
        os.close(fd)
        os.remove(db)
        try:
            store = DS.SqliteDataStore(prob, database_name=db, mode=args.get('mode', 'write'), thread_safe=args.get('thread_safe', True))
            prob.data_store = store
            inds = []
            for i in range(ninds):
                iid = 5 if (same_id and i > 0) else 5 + i
                ind = _make_individual(ctx, 'i%d' % i, iid, other=inds[0] if (i > 0 and not same_id and not args.get('plain')) else None,
                                       plain=bool(args.get('plain')) and i > 0)
                inds.append(ind)
                prob.individuals.append(ind)
            last = {}
            nmut = 0
            saved = {}
            for op in ops_list:
                if op.startswith('sync'):
                    ind = inds[int(op[4:])]
                    store.sync_individual(ind)
                    last[ind.id] = _snapshot(ind)
                elif op.startswith('imut'):
                    nmut += 1
                    _mutate_in_place(ctx, inds[int(op[4:])], 'm%d' % nmut)
                elif op.startswith('mut'):
                    nmut += 1
                    saved[int(op[3:])] = _save(inds[int(op[3:])])
                    _mutate(ctx, inds[int(op[3:])], 'm%d' % nmut)
                elif op.startswith('rev'):          # the data goes back to what it was before the last mutation
                    _restore(inds[int(op[3:])], saved[int(op[3:])])
                elif op == 'all':
                    store.sync_all()
                    for ind in prob.individuals:
                        last[ind.id] = _snapshot(ind)
            # read back through a read-mode store on another problem object
            view.individuals, view.parameters, view.costs = [], [], []
            store.destroy()
            DS.SqliteDataStore(view, database_name=db, mode='read')
        finally:
            prob.data_store = DS.DummyDataStore()
            if os.path.exists(db):
                os.remove(db)
        ctx.output('ids', sorted(x.id for x in view.individuals))
        ctx.check('problem-name-and-description', view.name != 'problem-name' or view.description != 'descr')
        ctx.check('parameter-definitions', _differs([dict(p) for p in view.parameters], [dict(p) for p in prob.parameters]))
        ctx.check('cost-definitions-in-definition-order', _differs([dict(c) for c in view.costs], [dict(c) for c in prob.costs]))
        ctx.check('one-row-per-id', sorted(x.id for x in view.individuals) != sorted(last))
        for got in view.individuals:
            exp = last.get(got.id)
            if exp is None:
                continue
            ctx.check('vector-round-trip', _differs(got.vector, exp['vector']))
            ctx.check('costs-round-trip', _differs(got.costs, exp['costs']))
            ctx.check('signed-costs-round-trip', _differs(got.costs_signed, exp['costs_signed']))
            ctx.check('population-id-round-trip', got.population_id != exp['population_id'])
            ctx.check('custom-data-round-trip', _differs(got.custom, exp['custom']))
            ctx.check('features-round-trip', _differs(got.features, exp['features']))
    return body


def _jsonable(o):
    # numpy arrays / scalars among the features (the gradient evaluator stores an ndarray): compared as lists / floats
    import numpy
    if isinstance(o, numpy.ndarray):
        return o.tolist()
    if isinstance(o, numpy.generic):
        return o.item()
    raise TypeError('not JSON serialisable: %r' % type(o))


def run_store(args):
    """A whole (small) algorithm run with the store attached: afterwards the store holds a row
    with the final data of every recorded individual.  Concrete run; solver choices only place
    the injected transient failure."""
    algo, N, G = args['algo'], args['N'], args['G']
    import artap.datastore as DS
    import artap.algorithm_NSGAII as NS
    import artap.algorithm_genetic as GA
    import artap.algorithm_swarm as SW
    from artap.problem import Problem, ProblemViewDataStore
    import random as _random
    box = {}

    class P(Problem):
        def set(self, **kw):
            self.name = 'run-store'
            self.parameters = [{'name': 'x0', 'bounds': [-1.0, 2.0]}, {'name': 'x1', 'bounds': [0.0, 1.0]}]
            self.costs = [{'name': 'f0', 'criteria': 'minimize'}, {'name': 'f1', 'criteria': 'maximize'}]

        def evaluate(self, individual):
            ctx = box['ctx']
            j = box['ncalls']
            box['ncalls'] += 1
            if box['nfault'] < 1 and ctx.choice('fault_call%d' % j, 2):
                box['nfault'] += 1
                raise RuntimeError('injected')
            x = individual.vector
            return [(x[0] - 0.3) ** 2 + x[1] / 3.0, 1.0 / (1.0 + x[0] ** 2) + 0.1 * x[1]]

    prob = P()
    import artap.algorithm_sweep as SWEEP
    import artap.operators as OPS
    cls = {'nsga2': NS.NSGAII, 'epsmoea': GA.EpsMOEA, 'smpso': SW.SMPSO, 'sweep': SWEEP.SweepAlgorithm}[algo]

    def body(ctx):
        from artap.individual import Individual
        from artap.surrogate import SurrogateModelEval
        Individual.counter = 0
        _random.seed(1234 + N + G)
        box.update(ctx=ctx, ncalls=0, nfault=0)
        prob.individuals, prob.failed = [], []
        prob.costs = prob.costs[:2]        # a worst-case evaluator of an earlier path appended its extra objective
        prob.surrogate = SurrogateModelEval(prob)
        fd, db = tempfile.mkstemp(suffix='.sqlite')
        os.close(fd)
        os.remove(db)
        try:
            prob.data_store = DS.SqliteDataStore(prob, database_name=db, mode='write')
            if algo == 'sweep':
                # a design-of-experiments sweep with a NON-DEFAULT evaluator: the gradient / worst-case evaluators add
                # features and costs after Job.evaluate has written the row -- the final data must still reach the store
                gen = OPS.CustomGenerator(prob.parameters)
                gen.init([[0.1 + 0.2 * i, 0.3 + 0.1 * i] for i in range(N)])
                alg = cls(prob, generator=gen)
                for p_ in prob.parameters:
                    p_['tol'] = 0.05
                ev = args.get('evaluator')
                if ev == 'gradient':
                    alg.evaluator = OPS.GradientEvaluator(alg)
                elif ev == 'worst':
                    alg.evaluator = OPS.WorstCaseEvaluator(alg)
            else:
                alg = cls(prob)
            alg.options['max_population_size'] = N
            alg.options['max_population_number'] = G
            if algo == 'smpso':
                alg.n = N
            alg.run()
            viewp = ProblemViewDataStore(database_name=db)
        finally:
            prob.data_store = DS.DummyDataStore()
            if os.path.exists(db):
                os.remove(db)
        got = {i.id: i for i in viewp.individuals}
        ctx.output('rows', len(got))
        # evaluated-but-dropped offspring also have rows (Job.evaluate writes every evaluation): superset is fine
        ctx.check('row-for-every-recorded-individual', not set(i.id for i in prob.individuals) <= set(got))
        ctx.check('one-row-per-id', len(viewp.individuals) != len(got))
        for ind in prob.individuals:
            g = got.get(ind.id)
            if g is None:
                continue
            exp = _json.loads(_json.dumps(_snapshot(ind), default=_jsonable))   # final data, normalised to JSON types
            ctx.check('final-vector', _differs(g.vector, exp['vector']))
            ctx.check('final-costs', _differs(g.costs, exp['costs']))
            ctx.check('final-signed-costs', _differs(g.costs_signed, exp['costs_signed']))
            ctx.check('final-population-id', g.population_id != exp['population_id'])
            ctx.check('final-features', _differs(g.features, exp['features']))
        ctx.check('view-problem-name', viewp.name != 'run-store')
    return body


def configs(tier):
    Q = tier == 'quick'
    out = []
    ve = {'validate': 25}
    H = [
        ('s', ['sync0'], 1, False),
        ('s-m-s', ['sync0', 'mut0', 'sync0'], 1, False),
        ('s0-s1-m0-all', ['sync0', 'sync1', 'mut0', 'all'], 2, False),
        ('same-id-last-wins', ['sync0', 'sync1'], 2, True),
        ('all-m1-s1', ['all', 'mut1', 'sync1'], 2, False),
        ('s-im-s', ['sync0', 'imut0', 'sync0'], 1, False),
        ('s0-s1-im1-all', ['sync0', 'sync1', 'imut1', 'all'], 2, False),
        ('s0-s1-m1-all', ['sync0', 'sync1', 'mut1', 'all'], 2, False),
        # a row rewritten individually between two bulk syncs, data reverted in between (stale-cache pattern)
        ('all-m0-s0-rev0-all', ['all', 'mut0', 'sync0', 'rev0', 'all'], 1, False),
        ('s0-all-m0-s0-rev0-all', ['sync0', 'all', 'mut0', 'sync0', 'rev0', 'all'], 2, False),
    ]
    if not Q:
        H += [('s0-m0-s0-m0-s0', ['sync0', 'mut0', 'sync0', 'mut0', 'sync0'], 1, False),
              ('three', ['sync2', 'sync0', 'mut2', 'all', 'mut1', 'sync1'], 3, False),
              ('same-id-three', ['sync0', 'sync1', 'mut0', 'sync0'], 2, True)]
    for name, ops_, n, same in H:
        out.append({'name': 'history-' + name, 'task': 'history', 'args': {'ops': ops_, 'ninds': n, 'same_id': same},
                    'weight': 50 ** n, 'split': 48 if n >= 2 else None, 'engine': ve})
    # other store modes: persistent connection without journal (thread_safe=False), 'rewrite' mode
    out.append({'name': 'history-s-m-s-not-thread-safe', 'task': 'history',
                'args': {'ops': ['sync0', 'mut0', 'sync0', 'all'], 'ninds': 1, 'same_id': False, 'thread_safe': False}, 'weight': 50, 'engine': ve})
    # ... and the same store mode when the rows are written one by one only (no bulk sync before the store is closed)
    out.append({'name': 'history-s-m-s-not-thread-safe-no-bulk-sync', 'task': 'history',
                'args': {'ops': ['sync0', 'mut0', 'sync0'], 'ninds': 1, 'same_id': False, 'thread_safe': False}, 'weight': 50, 'engine': ve})
    out.append({'name': 'history-s0-s1-not-thread-safe-no-bulk-sync', 'task': 'history',
                'args': {'ops': ['sync0', 'sync1'], 'ninds': 2, 'same_id': False, 'thread_safe': False, 'plain': True}, 'weight': 60, 'engine': ve})
    if not Q:
        # further combinations of the store options: rewrite mode without journal, rows written one by one, same id twice
        out.append({'name': 'history-s-m-s-rewrite-mode-not-thread-safe', 'task': 'history',
                    'args': {'ops': ['sync0', 'mut0', 'sync0'], 'ninds': 1, 'same_id': False, 'mode': 'rewrite', 'thread_safe': False}, 'weight': 50, 'engine': ve})
        out.append({'name': 'history-same-id-last-wins-not-thread-safe', 'task': 'history',
                    'args': {'ops': ['sync0', 'sync1'], 'ninds': 2, 'same_id': True, 'thread_safe': False}, 'weight': 60, 'split': 48, 'engine': ve})
        out.append({'name': 'history-s0-im0-s0-s1-not-thread-safe', 'task': 'history',
                    'args': {'ops': ['sync0', 'imut0', 'sync0', 'sync1'], 'ninds': 2, 'same_id': False, 'thread_safe': False}, 'weight': 60, 'split': 48, 'engine': ve})
    out.append({'name': 'history-s-m-all-rewrite-mode', 'task': 'history',
                'args': {'ops': ['sync0', 'mut0', 'all'], 'ninds': 1, 'same_id': False, 'mode': 'rewrite'}, 'weight': 50, 'engine': ve})
    # MANY individuals in one store (only the first one carries solver choices): sync_all alone, and sync_all after some
    # rows were written individually and changed afterwards (last write wins for every row, also the last ones)
    for n in ((9, 14) if Q else (9, 11, 14, 23)):
        out.append({'name': 'history-many-n%d-all' % n, 'task': 'history', 'args': {'ops': ['all'], 'ninds': n, 'same_id': False, 'plain': True},
                    'weight': 30 * n, 'engine': ve})
    out.append({'name': 'history-many-n13-sync-mut-all', 'task': 'history',
                'args': {'ops': ['sync11', 'sync12', 'sync0', 'mut12', 'mut11', 'all'], 'ninds': 13, 'same_id': False, 'plain': True},
                'weight': 600, 'engine': ve})
    runs = [('nsga2', 3, 2)] if Q else [('nsga2', 3, 2), ('epsmoea', 3, 2), ('smpso', 2, 2), ('nsga2', 2, 3)]
    for algo, N, G in runs:
        out.append({'name': 'run-store-%s-N%d-G%d' % (algo, N, G), 'task': 'run_store', 'args': {'algo': algo, 'N': N, 'G': G},
                    'weight': 20, 'engine': {'validate': 0}})
    for ev in ('default', 'gradient', 'worst'):
        out.append({'name': 'run-store-sweep-N2-%s-evaluator' % ev, 'task': 'run_store',
                    'args': {'algo': 'sweep', 'N': 2, 'G': 1, 'evaluator': ev}, 'weight': 10, 'engine': {'validate': 0}})
    return out
