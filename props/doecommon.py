"""Running the real generators of artap/operators.py (and the doe.py builders behind them)
with symbolic parameter bounds / level values.  Shared by C08 (containment), C12 (coverage
structure of the samplers) and C13 (combinatorial structure of the factorial designs)."""
import numpy as np

from symx import core, ops, stubs
from symx.ops import And


def install():
    import artap.utils as U
    import artap.doe as DOE
    stubs.install((U, 'random', stubs.s_random), (U, 'int', ops.sint), (DOE, 'np', stubs.numpy_shim_light))
    if not getattr(DOE.halton, '_symx_wrapped', False):
        real_halton = DOE.halton
        alias = {}

        def halton(*a, **k):
            """The real halton(); while a symbolic path runs, its float matrix is handed on as an OBJECT array so that
            code scaling it with symbolic bounds -- also in place -- stays executable.  Aliasing is kept: the same float
            matrix object (e.g. out of a cache) always maps to the same object array."""
            r = real_halton(*a, **k)
            c = core.cur()
            if c is None or not c.symbolic or not isinstance(r, np.ndarray):
                return r
            ent = alias.get(id(r))
            if ent is None or ent[0] is not r:
                if len(alias) > 256:
                    alias.clear()
                ent = (r, r.astype(object))
                alias[id(r)] = ent
            return ent[1]
        halton._symx_wrapped = True
        DOE.halton = halton
    return DOE


def sym_parameters(ctx, n, prefix='', strict=True):
    """n parameters with symbolic bounds lb < ub (strict=False: lb <= ub, i.e. fixed parameters included)."""
    params, box = [], []
    for i in range(n):
        lo, hi = ctx.real('%slb%d' % (prefix, i)), ctx.real('%sub%d' % (prefix, i))
        ctx.assume(lo < hi if strict else lo <= hi)
        params.append({'name': 'x%d' % i, 'bounds': [lo, hi]})
        box.append((lo, hi))
    return params, box


class SymRandomState(object):
    """numpy.random.RandomState look-alike: rand(...) -> fresh reals in [0,1) in an object
    array, permutation(range(n)) -> symbolic permutation (concretised by forking)."""

    def __init__(self, *a, **k):
        pass

    def rand(self, *shape):
        c = core.cur()
        arr = np.empty(shape, dtype=object)
        for idx in np.ndindex(*shape):
            arr[idx] = c.real('u', 0, 1, hi_strict=True)
        return arr

    def permutation(self, x):
        c = core.cur()
        items = list(x)
        out = []
        while items:
            j = c.choice('perm', len(items))
            out.append(items.pop(j))
        return np.array(out)


def install_lhs_random():
    """doe.lhs creates np.random.RandomState() itself: give the module a numpy shim whose
    random.RandomState is the symbolic one and whose zeros_like/zeros make object arrays."""
    import artap.doe as DOE

    class _Rnd(object):
        RandomState = SymRandomState

    def zeros_like(a, *args, **kw):
        if isinstance(a, np.ndarray) and a.dtype == object:
            arr = np.empty(a.shape, dtype=object)
            arr.fill(0.0)
            return arr
        return np.zeros_like(a, *args, **kw)

    def isinstance_ok(obj):
        return obj

    # The selection criteria of lhs() score candidate designs with C code (scipy pdist, np.corrcoef).  The scores are
    # replaced by ARBITRARY ones: a solver choice per candidate decides whether it beats the best so far.  Which
    # candidate is returned is thereby arbitrary -- the Latin-hypercube structure must hold for every one of them.
    state = {'k': 0}

    def _wins():
        c = core.cur()
        state['k'] += 1
        return c is None or c.choice('candidate%d_beats_best_so_far' % state['k'], 2) == 1

    def corrcoef(m, *a, **k):
        rows = len(m)
        c = (0.5 ** state['k']) * 0.5 if _wins() else 0.99
        return np.eye(rows) + c * (np.ones((rows, rows)) - np.eye(rows))

    class _Dist(object):
        @staticmethod
        def pdist(h, *a, **k):
            npts = len(h)
            d = float(state['k'] + 1) if _wins() else 1e-9
            return np.full(max(1, npts * (npts - 1) // 2), d)

    class _Spatial(object):
        distance = _Dist

    shim = stubs.Shim(np, random=_Rnd, zeros_like=zeros_like, asarray=stubs.n_asarray, array=stubs.n_array,
                      round=stubs.n_round, around=stubs.n_round, corrcoef=corrcoef)
    stubs.install((DOE, 'np', shim), (DOE, 'spatial', _Spatial))
    DOE._symx_scores = state
    return DOE
