"""C01 -- constrained Pareto dominance is the textbook strict partial order.

Both real comparators (artap/operators.py: ParetoDominance.compare,
EpsilonDominance.compare) are executed symbolically on 2(m+1) fresh reals; the
(path condition, verdict) pairs are folded into one ite term per comparator and m
(function summary).  The laws are then single SMT queries over that term:
definition equivalence against a textbook oracle written here, range, irreflexivity,
antisymmetry, transitivity, epsilon/Pareto agreement, duplicate rejection.  A second,
summary-free configuration runs the real comparator three times per path (direct
forking) for small m as an independent check of the summary mechanism.
"""
import z3

from symx import core, ops, stubs
from symx.ops import And, Or, Not, ite, Implies

PROPERTY = 'C01'

META = {
    'bounds': {
        'quick': 'tuple/ndarray arguments m=2 used in 4 comparisons; vector length m<=4 (summary laws), m<=2 direct; markers boolean {0,1} and arbitrary reals; '
                 'epsilon lists: symbolic positive for m<=2, fixed positive lists (incl. shorter than m, scalar) for m<=4',
        'thorough': 'tuple/ndarray arguments m<=3; m<=6 (summary laws), m<=3 direct; symbolic positive epsilons m<=2, fixed lists m<=6',
    },
    'stubs': ['artap.operators.float -> identity on proxies', 'artap.operators.math.pow -> x*x for exponent 2.0'],
    'assumptions': [
        'floats modelled as reals: exact for the Pareto comparator (order comparisons only); for the epsilon '
        'comparator p/eps > q/eps <=> p > q holds in the reals, in doubles it can fail only for adjacent quotients '
        '("differ by more than rounding error")',
        'NaN / infinite costs outside the claim; epsilon = 0 outside (property says positive epsilons)',
        'vector lengths beyond the bound outside the claim',
    ],
}

EPS_LISTS = {
    1: [[0.1], [3.0]],
    2: [[0.1, 0.1], [0.01, 0.5], [0.25]],
    3: [[1e-6, 3.0, 7.0], [0.1, 0.1], [0.5]],
    4: [[0.01, 0.5, 2.0, 1e-3], [0.1, 0.1]],
    5: [[0.01], [0.3, 0.7, 1.1, 1e-4, 5.0]],
    6: [[0.1, 0.1], [1e-3, 2.0, 0.5, 0.25, 8.0, 1.5]],
}


def _install():
    import artap.operators as O
    stubs.install((O, 'float', ops.sfloat), (O, 'math', stubs.math_shim), (O, 'np', stubs.numpy_shim))
    return O


def textbook(p, q):
    """Oracle, independent of the code: feasibility precedence by |marker|, then the
    textbook Pareto relation on the objectives.  Polymorphic (terms or floats)."""
    pm, qm = abs(p[-1]), abs(q[-1])
    le = [a <= b for a, b in zip(p[:-1], q[:-1])]
    ge = [a >= b for a, b in zip(p[:-1], q[:-1])]
    lt = [a < b for a, b in zip(p[:-1], q[:-1])]
    gt = [a > b for a, b in zip(p[:-1], q[:-1])]
    pdom = And(And(*le), Or(*lt))
    qdom = And(And(*ge), Or(*gt))
    par = ite(pdom, 1, ite(qdom, 2, 0))
    return ite(pm < qm, 1, ite(qm < pm, 2, par))


def _vec(ctx, name, m, marker):
    v = [ctx.real('%s%d' % (name, i)) for i in range(m)]
    if marker == 'bool':
        v.append(ctx.int('%sm' % name, 0, 1))
    else:
        v.append(ctx.real('%sm' % name))
    return v


# concrete vectors used to validate a summary against the real function: the pairs of
# artap/tests/test_operators.py plus ties / mixed / marker cases
def _test_vectors(m):
    base = [[1.0] * m, [2.0] * m, [1.0] + [2.0] * (m - 1), [2.0] + [1.0] * (m - 1),
            [-1.0, 5.0, 9.0][:m] + [0.0] * max(0, m - 3), [-2.0, 6.0, 9.0][:m] + [0.0] * max(0, m - 3),
            [0.5] * m, [0.5] * (m - 1) + [0.25]]
    out = []
    for b in base:
        for mk in (0, 1, 2.5, -1):
            out.append(list(b) + [mk])
    return out


def _summaries(m, eps=None, symbolic_eps=False):
    O = _install()
    par = O.ParetoDominance()
    n = 2 * (m + 1)
    sp, st1 = core.summarize('pareto%d' % m, lambda *a: par.compare(list(a[:m + 1]), list(a[m + 1:])), n)
    out = {'pareto': sp, 'stats': [st1], 'par_obj': par}
    for p in _test_vectors(m):
        for q in _test_vectors(m):
            want = par.compare(p, q)
            got = z3.simplify(sp.apply(p + q).t)
            if not (z3.is_int_value(got) and got.as_long() == want):
                raise core.Unsupported('summary of ParetoDominance.compare disagrees with the real function on %r %r' % (p, q))
    if eps is not None or symbolic_eps:
        if symbolic_eps:
            def assume(ctx, formals):
                pass
            # epsilons are free solver constants shared by name between the summary and the law body
            class _Eps(list):
                pass
            eps_terms = []

            def mk_eps():
                c = core.cur()
                es = [c.real('eps%d' % i, 0, None, lo_strict=True) for i in range(m)]
                return es
            holder = {}

            def fn(*a):
                comp = O.EpsilonDominance(mk_eps())
                holder['c'] = comp
                return comp.compare(list(a[:m + 1]), list(a[m + 1:]))
            se, st2 = core.summarize('epsS%d' % m, fn, n)
            out['eps'] = se
        else:
            comp = O.EpsilonDominance(eps if len(eps) > 1 or True else eps[0])
            se, st2 = core.summarize('eps%d' % m, lambda *a: comp.compare(list(a[:m + 1]), list(a[m + 1:])), n)
            out['eps'] = se
            out['eps_obj'] = comp
            for p in _test_vectors(m)[::3]:
                for q in _test_vectors(m)[::2]:
                    want = comp.compare(p, q)
                    got = z3.simplify(se.apply(p + q).t)
                    if not (z3.is_int_value(got) and got.as_long() == want) and p[:-1] != q[:-1]:
                        raise core.Unsupported('summary of EpsilonDominance.compare disagrees on %r %r' % (p, q))
        out['stats'].append(st2)
    return out


def _merge_stats(body, stats_list):
    agg = core.Stats()
    for s in stats_list:
        for f in core.Stats.FIELDS:
            if f == 'max_query':
                agg.max_query = max(agg.max_query, s.max_query)
            else:
                setattr(agg, f, getattr(agg, f) + getattr(s, f))
    body.pre_stats = agg.as_dict()
    return body


def pareto_laws(args):
    m, marker = args['m'], args['marker']
    S = _summaries(m)
    sp, par = S['pareto'], S['par_obj']

    def cmp(ctx, a, b):
        return sp.apply(a + b) if ctx.symbolic else par.compare(a, b)

    def body(ctx):
        p, q, r = _vec(ctx, 'p', m, marker), _vec(ctx, 'q', m, marker), _vec(ctx, 'r', m, marker)
        pq, qp, qr, pr, pp = cmp(ctx, p, q), cmp(ctx, q, p), cmp(ctx, q, r), cmp(ctx, p, r), cmp(ctx, p, p)
        ctx.output('pq', pq)
        ctx.output('qp', qp)
        ctx.check('range', Not(Or(pq == 0, pq == 1, pq == 2)))
        ctx.check('definition', pq != textbook(p, q))
        ctx.check('irreflexive', pp != 0)
        ctx.check('antisymmetry', Not(And(Implies(pq == 1, qp == 2), Implies(pq == 2, qp == 1),
                                          Implies(pq == 0, qp == 0))))
        ctx.check('transitivity', And(pq == 1, qr == 1, pr != 1))
        ctx.check('transitivity-2', And(pq == 2, qr == 2, pr != 2))
        # vacuity witnesses for the interesting verdicts are obligations that must be SAT;
        # they are asserted through the reachability twins below
        for want in (0, 1, 2):
            if ctx.symbolic:
                rr, _m = ctx._query([core.tobool3(pq == want)])
                if rr != z3.sat:
                    ctx.check('witness-verdict-%d-unreachable' % want, True)
                else:
                    ctx.reach('verdict-%d' % want)
    return _merge_stats(body, S['stats'])


def pareto_direct(args):
    """No summary: the real comparator is executed (and forks) three times per path."""
    m, marker = args['m'], args['marker']
    O = _install()
    par = O.ParetoDominance()

    def body(ctx):
        p, q, r = _vec(ctx, 'p', m, marker), _vec(ctx, 'q', m, marker), _vec(ctx, 'r', m, marker)
        pq = par.compare(p, q)
        qp = par.compare(q, p)
        ctx.output('pq', pq)
        ctx.output('qp', qp)
        ctx.check('range-direct', pq not in (0, 1, 2))
        ctx.check('definition-direct', textbook(p, q) != pq)
        ctx.check('antisymmetry-direct', {0: 0, 1: 2, 2: 1}.get(pq) != qp)
        if pq == 1:
            qr = par.compare(q, r)
            if qr == 1:
                pr = par.compare(p, r)
                ctx.check('transitivity-direct', pr != 1)
        ctx.check('irreflexive-direct', par.compare(p, list(p)) != 0)
    return body


def eps_laws(args):
    m, marker = args['m'], args['marker']
    eps = args.get('eps')
    symbolic = args.get('symbolic_eps', False)
    S = _summaries(m, eps=eps, symbolic_eps=symbolic)
    sp, se, par = S['pareto'], S['eps'], S['par_obj']
    O = _install()

    def body(ctx):
        if symbolic:
            es = [ctx.real('eps%d' % i, 0, None, lo_strict=True) for i in range(m)]
            comp = O.EpsilonDominance(es)
        else:
            comp = S['eps_obj']
        p, q = _vec(ctx, 'p', m, marker), _vec(ctx, 'q', m, marker)
        if ctx.symbolic:
            e_pq, e_qp, p_pq = se.apply(p + q), se.apply(q + p), sp.apply(p + q)
        else:
            e_pq, e_qp, p_pq = comp.compare(p, q), comp.compare(q, p), par.compare(p, q)
        ctx.output('e_pq', e_pq)
        same = And(*[a == b for a, b in zip(p[:-1], q[:-1])])
        same_marker = abs(p[-1]) == abs(q[-1])
        ctx.check('eps-range', Not(Or(e_pq == 0, e_pq == 1, e_pq == 2)))
        ctx.check('eps-agrees-with-pareto', And(Not(same), e_pq != p_pq))
        ctx.check('eps-names-loser-for-identical', And(same, same_marker, Not(Or(e_pq == 1, e_pq == 2))))
        ctx.check('eps-marker-precedence', And(same, Not(same_marker), e_pq != p_pq))
        ctx.check('eps-antisymmetry-nonidentical',
                  And(Not(same), Not(And(Implies(e_pq == 1, e_qp == 2), Implies(e_pq == 2, e_qp == 1),
                                         Implies(e_pq == 0, e_qp == 0)))))
    return _merge_stats(body, S['stats'])


def eps_direct(args):
    """Real EpsilonDominance.compare executed per path (no summary), fixed epsilons."""
    m, marker, eps = args['m'], args['marker'], args['eps']
    O = _install()
    par = O.ParetoDominance()
    comp = O.EpsilonDominance(eps)

    def body(ctx):
        p, q = _vec(ctx, 'p', m, marker), _vec(ctx, 'q', m, marker)
        e = comp.compare(p, q)
        ctx.output('e', e)
        t = textbook(p, q)
        same = And(*[a == b for a, b in zip(p[:-1], q[:-1])])
        ctx.check('eps-direct-agrees', And(Not(same), t != e))
        ctx.check('eps-direct-identical', And(same, abs(p[-1]) == abs(q[-1]), e not in (1, 2)))
        # archive duplicate rejection relies on it: identical vector -> loser named
        ctx.check('eps-direct-range', e not in (0, 1, 2))
    return body


from .xhair import crosshair  # noqa: E402  (second opinion, thorough tier)


def reuse(args):
    """Multi-step: the SAME comparator object is first used on (concrete) vectors of one length and then on
    symbolic vectors of another length (one Archive() default comparator instance is shared by every swarm
    algorithm of a process).  The second verdict must still be the textbook one."""
    m1, m2, which = args['m1'], args['m2'], args['which']
    O = _install()
    eps = EPS_LISTS[max(m1, m2)][0]

    def body(ctx):
        comp = O.ParetoDominance() if which == 'pareto' else O.EpsilonDominance(list(eps))
        comp.compare([float(i) for i in range(m1)] + [0], [float(i + 1) for i in range(m1)] + [0])
        comp.compare([1.0] * m1 + [1], [1.0] * m1 + [0])
        p, q = _vec(ctx, 'p', m2, 'real'), _vec(ctx, 'q', m2, 'real')
        e = comp.compare(p, q)
        ctx.output('e', e)
        same = And(*[a == b for a, b in zip(p[:-1], q[:-1])])
        ctx.check('reused-comparator-agrees-with-textbook', And(Not(same), textbook(p, q) != e))
        comp.compare([float(i) for i in range(m1)] + [0], [float(i + 1) for i in range(m1)] + [0])
        p2, q2 = _vec(ctx, 'pb', m2, 'bool'), _vec(ctx, 'qb', m2, 'bool')
        if which == 'pareto':
            ctx.check('reused-comparator-second-round', textbook(p2, q2) != comp.compare(p2, q2))
    return body


def containers(args):
    """The cost vectors handed over as tuples / numpy arrays (object arrays of proxies when symbolic, float arrays in
    replays) and used in MORE THAN ONE comparison: the verdicts must be the textbook ones for the ORIGINAL values
    (a comparator that writes into its arguments is wrong from the second comparison on) and the arguments must be
    left unchanged."""
    m, kind, which = args['m'], args['kind'], args['which']
    O = _install()
    import numpy as np
    eps = EPS_LISTS[m][0]

    def body(ctx):
        comp = O.ParetoDominance() if which == 'pareto' else O.EpsilonDominance(list(eps))
        orig = [_vec(ctx, n, m, 'real') for n in 'pqr']
        if kind == 'ndarray':
            P, Q, R = [np.array(v, dtype=object if ctx.symbolic else float) for v in orig]
        else:
            P, Q, R = [tuple(v) for v in orig]
        p, q, r = orig
        pq = comp.compare(P, Q)
        pr = comp.compare(P, R)
        qr = comp.compare(Q, R)
        qp = comp.compare(Q, P)
        ctx.output('verdicts', [pq, pr, qr, qp])

        def agrees(a, b, e):
            same = And(*[x == y for x, y in zip(a[:-1], b[:-1])])
            return And(Not(same), textbook(a, b) != e) if which == 'eps' else textbook(a, b) != e
        ctx.check('first-comparison', agrees(p, q, pq))
        ctx.check('second-comparison-of-an-already-compared-vector', agrees(p, r, pr))
        ctx.check('third-comparison', agrees(q, r, qr))
        ctx.check('swapped-comparison', agrees(q, p, qp))
        ctx.check('arguments-not-modified',
                  Or(*[ops.differs(a, b, 0.0) for V, v in ((P, p), (Q, q), (R, r)) for a, b in zip(list(V), v)]))
    return body


def configs(tier):
    M = 4 if tier == 'quick' else 6
    MD = 2 if tier == 'quick' else 3
    out = []
    for m in range(1, M + 1):
        for marker in ('bool', 'real'):
            out.append({'name': 'pareto-laws-m%d-%s' % (m, marker), 'task': 'pareto_laws',
                        'args': {'m': m, 'marker': marker}, 'weight': m})
    for m in range(1, MD + 1):
        for marker in ('bool', 'real'):
            out.append({'name': 'pareto-direct-m%d-%s' % (m, marker), 'task': 'pareto_direct',
                        'args': {'m': m, 'marker': marker}, 'weight': 3 ** m, 'split': 40 if m >= 3 else None})
    for m in range(1, M + 1):
        for k, eps in enumerate(EPS_LISTS[m]):
            out.append({'name': 'eps-laws-m%d-eps%d' % (m, k), 'task': 'eps_laws',
                        'args': {'m': m, 'marker': 'bool' if k % 2 == 0 else 'real', 'eps': eps}, 'weight': m})
    for m1, m2 in ((1, 2), (2, 1), (2, 3), (3, 2)):
        for which in ('eps', 'pareto'):
            out.append({'name': 'reuse-%s-m%d-then-m%d' % (which, m1, m2), 'task': 'reuse', 'args': {'m1': m1, 'm2': m2, 'which': which},
                        'weight': 3 ** m2, 'engine': {'validate': 40}})
    for m in (1, 2):
        out.append({'name': 'eps-laws-m%d-symbolic-eps' % m, 'task': 'eps_laws',
                    'args': {'m': m, 'marker': 'bool', 'symbolic_eps': True}, 'weight': 5})
        out.append({'name': 'eps-direct-m%d' % m, 'task': 'eps_direct',
                    'args': {'m': m, 'marker': 'real', 'eps': EPS_LISTS[m][0]}, 'weight': 2})
    for which in ('pareto', 'eps'):
        for kind in ('ndarray', 'tuple'):
            for m in ((2,) if tier == 'quick' else (1, 2, 3)):
                out.append({'name': 'containers-%s-%s-m%d' % (which, kind, m), 'task': 'containers',
                            'args': {'m': m, 'kind': kind, 'which': which}, 'weight': 9 ** m, 'split': 32, 'engine': {'validate': 30}})
    if tier == 'thorough':
        out.append({'name': 'crosshair-second-opinion', 'task': 'crosshair', 'args': {'functions': ['pareto_antisymmetry_m2', 'pareto_definition_m1']}, 'weight': 1000,
                    'engine': {'validate': 0, 'path_timeout_s': 900}})
    return out
