"""C05 -- each design is evaluated exactly once and stored costs belong to its vector.

The real Job.evaluate / Evaluator.evaluate(_serial/_scalar) / Algorithm.evaluate /
Individual.calc_signed_costs / Problem signs / SurrogateModelEval.evaluate /
SweepAlgorithm.run / CustomGenerator.generate run on symbolic design vectors with an
arbitrary (uninterpreted, Ackermannised) objective and constraint functions.
"""
from symx import core, ops, stubs
from symx.ops import And, Or, Not, Implies, Iff
from . import common, evalcommon as ec

PROPERTY = 'C05'

META = {
    'bounds': {'quick': 'second sweep with the same generator; same design object listed twice; 4, 5 (7) objectives; another Problem created first; stored precision 0/2; objective returning an ndarray; batches of <=2 designs (dim<=2), <=2 objectives with every minimise/maximise/absent assignment, 0..2 constraints, '
                        'all 4 initial states, batch evaluated twice; sweep of 3 designs; scalar bridge (Evaluator.evaluate_scalar, '
                        'ScipyOpt.run with scipy.optimize.minimize replaced by an arbitrary 3-point query sequence, NLopt._function)',
               'thorough': 'stored precision 0,1,2,3,12; batches of <=3 designs, 2 constraints; sweep of 4; 4-point scalar sequences'},
    'stubs': ['Problem.evaluate / evaluate_inequality_constraints -> uninterpreted functions (Ackermann form) + call log',
              'np.round(x, decimals=7) -> ROUND7(x): |ROUND7(x)-x|<=0.5e-7, multiple of 1e-7, monotone, congruent',
              'scipy.optimize.minimize (module global of artap.algorithm_scipy) -> calls the objective on an arbitrary sequence of points',
              'time.time() real (values not branched on)'],
    'assumptions': ['floats as reals', 'evaluate_parallel outside (see C07 not applicable)',
                    'IN_PROGRESS / FAILED initial states: evaluate_serial skips them; reported as observed, not asserted',
                    'SciPy / NLopt optimisers themselves are C/Fortran code and outside: only the callable they are handed is encoded'],
}

CRITS = [(None,), ('minimize',), ('maximize',), ('minimize', 'maximize'), ('maximize', None), ('maximize', 'maximize')]


def preload():
    common.preload_all()
    import artap.algorithm_scipy  # noqa
    import artap.algorithm_nlopt  # noqa


def _sign(c):
    return -1 if c == 'maximize' else 1


def batch(args):
    dim, criteria, ncon, b = args['dim'], tuple(args['criteria']), args['ncon'], args['b']
    from artap.individual import Individual
    from artap.algorithm import DummyAlgorithm
    if args.get('after_another_problem'):
        # state that survives between uses: another Problem object with the OPPOSITE minimise/maximise assignment (and
        # one more objective) was created earlier in the same process
        flip = {'minimize': 'maximize', 'maximize': 'minimize', None: 'maximize'}
        ec.make_problem(dim, tuple(flip[c] for c in criteria) + ('maximize',), 0)
    prob = ec.make_problem(dim, criteria, ncon, bounds=[(-2.0, 3.0)] * dim)
    alg = DummyAlgorithm(prob)
    States = [Individual.State.EMPTY, Individual.State.IN_PROGRESS, Individual.State.EVALUATED, Individual.State.FAILED]
    o = len(criteria)

    def body(ctx):
        ec.reset_problem(prob, ctx)
        prob.h.return_array = args.get('returns') == 'ndarray'
        inds, init = [], []
        for i in range(b):
            ind = Individual(ec.sym_vector(ctx, 'd%d' % i, prob))
            st = States[ctx.choice('state%d' % i, 4)]
            ind.state = st
            if args.get('precision') is not None:
                ind.features['precision'] = args['precision']       # "rounded to the STORED precision"
            if st == Individual.State.EVALUATED:
                ind.costs = [ctx.real('old%d_%d' % (i, k)) for k in range(o)]
                ind.costs_signed = [ctx.real('olds%d_%d' % (i, k)) for k in range(o)] + [True]
            inds.append(ind)
            init.append((st, list(ind.vector), list(ind.costs), list(ind.costs_signed)))
        # the batch may list the same design object more than once (an elite design that is also among the offspring)
        submitted = inds + ([inds[0]] if args.get('same_object_twice') else [])
        alg.evaluate(submitted)
        n1 = len(prob.h.calls)
        snap = [(i.state, list(i.costs), list(i.costs_signed)) for i in inds]
        alg.evaluate(submitted)
        n2 = len(prob.h.calls)
        ctx.output('calls', n1)
        empties = [i for i in range(b) if init[i][0] == Individual.State.EMPTY]
        ctx.check('one-call-per-new-design', n1 != len(empties))
        ctx.check('no-call-on-repeat', n2 != n1)
        ctx.check('repeat-changes-nothing', any(snap[i] != (inds[i].state, list(inds[i].costs), list(inds[i].costs_signed))
                                              for i in range(b)))
        if n1 != len(empties):
            return
        calls = prob.h.calls
        for i in empties:
            ind = inds[i]
            # order of the calls inside a batch is not promised: match calls to designs by vector (the
            # uninterpreted objective is congruent, so every call on an equal vector returns equal values)
            ctx.check('objective-called-on-every-new-design', Not(Or(*[ec.same_vec(vec, init[i][1]) for vec, _v, _f in calls])))
            ctx.check('stored-vector-unchanged', Not(ec.same_vec(ind.vector, init[i][1])))
            ctx.check('state-evaluated', ind.state != Individual.State.EVALUATED)
            ctx.check('costs-length', len(ind.costs) != o)
            if len(ind.costs) == o:
                ctx.check('costs-are-objective-values-of-the-stored-vector',
                          Not(Or(*[And(ec.same_vec(vec, init[i][1]), And(*[a == b_ for a, b_ in zip(ind.costs, vals)]))
                                   for vec, vals, _f in calls])))
            ctx.check('signed-length', len(ind.costs_signed) != o + 1)
            if len(ind.costs) == o and len(ind.costs_signed) == o + 1:
                exp = [_sign(criteria[k]) * ops.sround(ind.costs[k], ind.features['precision'], numpy_style=True) for k in range(o)]
                ctx.check('signed-costs', Or(*[ops.far(a, e, 1e-12) for a, e in zip(ind.costs_signed[:-1], exp)]))
                ctx.output('signed%d' % i, list(ind.costs_signed[:-1]))
                if ncon:
                    ok = [And(ec.same_vec(cvec, init[i][1]), Iff(bool(ind.costs_signed[-1]) is False, And(*[v < 0 for v in cvals])))
                          for cvec, cvals in prob.h.con_calls]
                    ctx.check('marker-ranks-feasible-first', Not(Or(*ok)))
                else:
                    ctx.check('marker-constant-without-constraints', ind.costs_signed[-1] is not True)
        for i in range(b):
            if init[i][0] == Individual.State.EVALUATED:
                ctx.check('evaluated-untouched', inds[i].state != Individual.State.EVALUATED or
                          list(inds[i].costs) != init[i][2] or list(inds[i].costs_signed) != init[i][3])
        if ncon and len(empties) >= 2:
            a, c = inds[empties[0]], inds[empties[1]]
            if len(a.costs_signed) == o + 1 and len(c.costs_signed) == o + 1:
                def feas(vec0):
                    return Or(*[And(ec.same_vec(cvec, vec0), And(*[v < 0 for v in cvals])) for cvec, cvals in prob.h.con_calls])
                fa, fc = feas(init[empties[0]][1]), feas(init[empties[1]][1])
                ctx.check('feasible-design-preferred', And(fa, Not(fc), common.textbook(a.costs_signed, c.costs_signed) != 1))
                ctx.check('feasible-design-preferred-rev', And(fc, Not(fa), common.textbook(a.costs_signed, c.costs_signed) != 2))
    return body


def sweep(args):
    dim, nvec, criteria = args['dim'], args['nvec'], tuple(args['criteria'])
    from artap.individual import Individual
    from artap.algorithm_sweep import SweepAlgorithm
    from artap.operators import CustomGenerator
    prob = ec.make_problem(dim, criteria, 0)
    o = len(criteria)

    def body(ctx):
        ec.reset_problem(prob, ctx)
        vectors = [ec.sym_vector(ctx, 'v%d' % i, prob) for i in range(nvec)]
        gen = CustomGenerator(prob.parameters)
        gen.init([list(v) for v in vectors])
        alg = SweepAlgorithm(prob, generator=gen)
        alg.run()
        calls = prob.h.calls
        ctx.output('ncalls', len(calls))
        ctx.check('sweep-count', len(calls) != nvec)
        ctx.check('sweep-recorded', len(prob.individuals) != nvec)
        if len(calls) != nvec or len(prob.individuals) != nvec:
            return
        for i in range(nvec):
            ctx.check('sweep-order', Not(ec.same_vec(calls[i][0], vectors[i])))
            ind = prob.individuals[i]
            ctx.check('sweep-individual-vector', Not(ec.same_vec(ind.vector, vectors[i])))
            ctx.check('sweep-costs', len(ind.costs) != o or Or(*[a != b for a, b in zip(ind.costs, calls[i][1])]))
            ctx.check('sweep-state', ind.state != Individual.State.EVALUATED)
        # multi-step: the SAME generator object drives a second sweep (the same design set on a second study): again
        # exactly its designs, in order
        alg2 = SweepAlgorithm(prob, generator=gen)
        alg2.run()
        calls2 = prob.h.calls[nvec:]
        ctx.check('second-sweep-with-the-same-generator-count', len(calls2) != nvec or len(prob.individuals) != 2 * nvec)
        if len(calls2) == nvec:
            for i in range(nvec):
                ctx.check('second-sweep-with-the-same-generator-order', Not(ec.same_vec(calls2[i][0], vectors[i])))
        # lifecycle: the generator is given a NEW plan (other designs, one fewer) and the SAME sweep object runs again:
        # exactly the generator's current designs, in order
        n_before = len(prob.h.calls)
        rec_before = len(prob.individuals)
        plan = [ec.sym_vector(ctx, 'w%d' % i, prob) for i in range(max(1, nvec - 1))]
        gen.init([list(v) for v in plan])
        alg.run()
        calls3 = prob.h.calls[n_before:]
        ctx.check('re-run-of-the-same-sweep-after-a-new-plan-count', len(calls3) != len(plan) or len(prob.individuals) - rec_before != len(plan))
        if len(calls3) == len(plan):
            for i in range(len(plan)):
                ctx.check('re-run-of-the-same-sweep-after-a-new-plan-order', Not(ec.same_vec(calls3[i][0], plan[i])))
                if len(prob.individuals) - rec_before == len(plan):
                    ctx.check('re-run-of-the-same-sweep-after-a-new-plan-recorded-vector',
                              Not(ec.same_vec(prob.individuals[rec_before + i].vector, plan[i])))
    return body


def scalar(args):
    dim, q, crit, how = args['dim'], args['q'], args['crit'], args['how']
    from artap.individual import Individual
    prob = ec.make_problem(dim, (crit,), 0)
    if how == 'scipy':
        import artap.algorithm_scipy as AS
        alg = AS.ScipyOpt(prob)
    elif how == 'nlopt':
        import artap.algorithm_nlopt as AN
        alg = AN.NLopt(prob)
    else:
        from artap.algorithm import DummyAlgorithm
        alg = DummyAlgorithm(prob)
    box = {}

    def fake_minimize(fun, x0, **kw):
        box['ret'] = []
        for pt in box['points']:
            box['ret'].append(fun(pt))
        return None

    if how == 'scipy':
        stubs.install((AS, 'minimize', fake_minimize))

    def body(ctx):
        ec.reset_problem(prob, ctx)
        pts = [ec.sym_vector(ctx, 'q%d' % i, prob) for i in range(q)]
        box['points'] = [list(p) for p in pts]
        if how == 'scipy':
            alg.run()
            rets = box['ret']
        elif how == 'nlopt':
            rets = [alg._function(list(p), None) for p in pts]
        else:
            rets = [alg.evaluator.evaluate_scalar(list(p)) for p in pts]
        calls = prob.h.calls
        ctx.output('rets', rets)
        ctx.check('scalar-one-call-per-query', len(calls) != q)
        ctx.check('scalar-every-point-recorded', len(prob.individuals) != q)
        if len(calls) != q or len(prob.individuals) != q:
            return
        for i in range(q):
            ind = prob.individuals[i]
            ctx.check('scalar-recorded-vector', Not(ec.same_vec(ind.vector, pts[i])))
            ctx.check('scalar-call-vector', Not(ec.same_vec(calls[i][0], pts[i])))
            ctx.check('scalar-true-cost-recorded', len(ind.costs) != 1 or ind.costs[0] != calls[i][1][0])
            exp = _sign(crit) * ops.sround(calls[i][1][0], 7, numpy_style=True)
            ctx.check('scalar-optimiser-gets-signed-cost', ops.far(rets[i], exp, 1e-12))
            ctx.check('scalar-state', ind.state != Individual.State.EVALUATED)
    return body


def retry_with_constraints(args):
    """Stored costs AND the feasibility marker belong to the finally stored vector also when the
    design was re-sampled after a transient failure (harness shared with C06)."""
    from . import c06
    return c06.single({'dim': 1, 'ncon': args.get('ncon', 1)})


def configs(tier):
    out = []
    out.append({'name': 'retry-with-constraints', 'task': 'retry_with_constraints', 'args': {'ncon': 1}, 'weight': 20, 'split': 32,
                'engine': {'validate': 40}})
    B = 2 if tier == 'quick' else 3
    for ci, crit in enumerate(CRITS):
        for ncon in (0, 1, 2):
            if tier == 'quick' and ncon == 2 and ci not in (3,):
                continue
            for b in range(1, B + 1):
                if b == 3 and (ncon == 1 or ci in (0, 1)):
                    continue
                dim = 1 if (ci + ncon) % 2 == 0 else 2
                out.append({'name': 'batch-b%d-dim%d-crit%d-con%d' % (b, dim, ci, ncon), 'task': 'batch',
                            'args': {'dim': dim, 'criteria': crit, 'ncon': ncon, 'b': b},
                            'weight': 4 ** b * (1 + ncon) ** b, 'split': 32 if b >= 3 else None,
                            'engine': {'validate': 30}})
    for prec in ((0, 2) if tier == 'quick' else (0, 1, 2, 3, 12)):
        for ci in ((1, 3) if tier == 'quick' else (0, 1, 2, 3)):
            if ci >= len(CRITS):
                continue
            out.append({'name': 'batch-b2-dim1-crit%d-con0-stored-precision%d' % (ci, prec), 'task': 'batch',
                        'args': {'dim': 1, 'criteria': CRITS[ci], 'ncon': 0, 'b': 2, 'precision': prec},
                        'weight': 16, 'engine': {'validate': 30}})
    for ci in ((3,) if tier == 'quick' else (1, 2, 3, 5)):
        out.append({'name': 'batch-b2-dim1-crit%d-con0-objective-returns-ndarray' % ci, 'task': 'batch',
                    'args': {'dim': 1, 'criteria': CRITS[ci], 'ncon': 0, 'b': 2, 'returns': 'ndarray', 'precision': 2},
                    'weight': 16, 'engine': {'validate': 30}})
    for ci in ((1, 3) if tier == 'quick' else (0, 1, 2, 3, 4, 5)):
        out.append({'name': 'batch-b2-dim1-crit%d-con0-after-another-problem' % ci, 'task': 'batch',
                    'args': {'dim': 1, 'criteria': CRITS[ci], 'ncon': 0, 'b': 2, 'after_another_problem': True},
                    'weight': 16, 'engine': {'validate': 30}})
    many = [('minimize', 'maximize', 'minimize', 'maximize'), ('maximize', None, 'minimize', 'maximize', 'maximize'),
            ('minimize', 'minimize', 'maximize', 'minimize', 'maximize', 'minimize', 'maximize')]
    for crit in (many[:2] if tier == 'quick' else many):
        out.append({'name': 'batch-b2-dim1-%d-objectives' % len(crit), 'task': 'batch',
                    'args': {'dim': 1, 'criteria': crit, 'ncon': 0, 'b': 2}, 'weight': 16, 'engine': {'validate': 30}})
    out.append({'name': 'batch-b1-dim2-4-objectives-con2', 'task': 'batch',
                'args': {'dim': 2, 'criteria': many[0], 'ncon': 2, 'b': 1}, 'weight': 16, 'engine': {'validate': 30}})
    for ci in ((1, 3) if tier == 'quick' else (0, 1, 2, 3)):
        out.append({'name': 'batch-b2-dim1-crit%d-con0-same-object-listed-twice' % ci, 'task': 'batch',
                    'args': {'dim': 1, 'criteria': CRITS[ci], 'ncon': 0, 'b': 2, 'same_object_twice': True},
                    'weight': 16, 'engine': {'validate': 30}})
    nv = 3 if tier == 'quick' else 4
    out.append({'name': 'sweep-%d' % nv, 'task': 'sweep', 'args': {'dim': 2, 'nvec': nv, 'criteria': ('minimize', 'maximize')},
                'weight': 5})
    out.append({'name': 'sweep-1', 'task': 'sweep', 'args': {'dim': 1, 'nvec': 1, 'criteria': ('maximize',)}, 'weight': 1})
    q = 3 if tier == 'quick' else 4
    for how in ('evaluator', 'scipy', 'nlopt'):
        for crit in ('minimize', 'maximize', None):
            out.append({'name': 'scalar-%s-%s' % (how, crit), 'task': 'scalar',
                        'args': {'dim': 2, 'q': q, 'crit': crit, 'how': how}, 'weight': 3})
    return out
