"""C20 -- design-point equality means equal coordinates and agrees with hashing.

Individual.__eq__ / __hash__ (artap/individual.py) and the list operations that rely on
them (`in`, list.remove, list.index, Archive.remove, the duplicate test of
GeneticAlgorithm.generate) are executed on vectors of solver variables.
"""
import builtins

import z3

from symx import core, ops, stubs
from symx.ops import And, Or, Not, Implies, Iff
from . import common

PROPERTY = 'C20'

TOL = 1e-10

META = {
    'bounds': {'quick': 'n=8 (thorough 10); ids equal; ndarray vectors n<=2 in several comparisons; vector length n<=4; lists of <=3 design points', 'thorough': 'ndarray n<=3; n<=6; lists of <=4'},
    'stubs': ['hash() inside artap.individual -> uninterpreted function of the tuple elements when they are proxies '
              '(congruence decides "identical vectors => identical hashes"; a hash that looks at anything else yields distinct values)'],
    'assumptions': ['floats as reals: |a-b| < 1e-10 evaluated exactly; in doubles the subtraction rounds (relative 1e-16)',
                    'vectors of equal length (as in the property)'],
}


def preload():
    common.preload_all()


_HASH = {}


def shash(obj):
    if isinstance(obj, tuple) and core.any_sym(obj):
        n = len(obj)
        f = _HASH.get(n)
        if f is None:
            f = z3.Function('HASH%d' % n, *([z3.RealSort()] * n + [z3.IntSort()]))
            _HASH[n] = f
        return core.SNum(f(*[core._real(core.toz3(x)) for x in obj]))
    h = getattr(type(obj), '__hash__', None)
    if h is not None and getattr(h, '__code__', None) is not None and 'artap' in (getattr(h, '__module__', '') or ''):
        # hash(point) inside the library: builtins.hash would insist on an int; call the real method, which hashes
        # the tuple of proxies through this shim
        return h(obj)
    return builtins.hash(obj)


def _collision(a, b, i=0):
    """Model-selection hint (never part of the verdict): CPython hashes -1.0 and -2.0 alike (hash(-1) is reserved), so a
    comparison that trusts hashes is wrong exactly there; the uninterpreted HASH only says 'some collision may exist',
    and the replay needs a real one."""
    return And(a[i] == -1, b[i] == -2, *[x == y for j, (x, y) in enumerate(zip(a, b)) if j != i])


def _install():
    import artap.individual as I
    stubs.install((I, 'hash', shash), (I, 'np', stubs.numpy_shim), (I, 'float', ops.sfloat), (I, 'math', stubs.math_shim))
    return I


def _close(a, b):
    return And(*[And(x - y < TOL, y - x < TOL) for x, y in zip(a, b)])


def equality(args):
    n = args['n']
    I = _install()

    def body(ctx):
        I.Individual.counter = 0
        a = [ctx.real('a%d' % i) for i in range(n)]
        b = [ctx.real('b%d' % i) for i in range(n)]
        A, B = I.Individual(a), I.Individual(b)
        r = (A == B)
        r2 = (B == A)
        ctx.output('eq', r)
        ctx.check('eq-iff-all-coordinates-close', Not(Iff(r, _close(a, b))), witness=_collision(a, b, n - 1))
        ctx.check('eq-symmetric', Not(Iff(r, r2)))
        ctx.check('eq-reflexive', Not(A == I.Individual(list(a))))
        for i in range(n):
            # differing in coordinate i alone (by more than the tolerance) makes them unequal
            others = And(*[a[j] == b[j] for j in range(n) if j != i])
            ctx.check('differs-in-coordinate-%d' % i, And(others, Or(a[i] - b[i] >= TOL, b[i] - a[i] >= TOL), r),
                      witness=_collision(a, b, i))
        # ids are data, not identity: from_dict restores them and deepcopy / pickle keep them, so two points may carry
        # the same id -- equality still means equal coordinates
        S = I.Individual(list(b))
        S.id = A.id
        ctx.check('equality-does-not-depend-on-the-id', Not(Iff(A == S, _close(a, b))))
        ctx.check('equality-does-not-depend-on-the-id(swapped)', Not(Iff(S == A, _close(a, b))))
        # non-default option: the stored rounding precision of a point (features['precision'], used for the signed
        # costs) is not part of the meaning of equality -- 1e-10 whatever the two points carry
        for pa, pb in ((3, 3), (12, 12), (2, 10), (0, 7)):
            P, Q = I.Individual(list(a)), I.Individual(list(b))
            P.features['precision'], Q.features['precision'] = pa, pb
            ctx.check('equality-does-not-depend-on-the-stored-precision(%d,%d)' % (pa, pb), Not(Iff(P == Q, _close(a, b))))
            ctx.check('equality-does-not-depend-on-the-stored-precision(%d,%d;swapped)' % (pa, pb), Not(Iff(Q == P, _close(a, b))))
        ha, hb = A.__hash__(), B.__hash__()
        ctx.check('identical-vectors-identical-hash', And(And(*[x == y for x, y in zip(a, b)]), ha != hb))
        ctx.check('hash-is-int-like', not isinstance(ha, (int, core.SNum)))
        # multi-step: a point that was hashed and then MOVED (in place, by re-assignment, through sync) must
        # hash like a fresh point with the same vector -- a stale cached hash breaks set()/dict de-duplication
        c = [ctx.real('c%d' % i) for i in range(n)]
        M1 = I.Individual(list(a))
        M1.__hash__()
        for i in range(n):
            M1.vector[i] = c[i]                       # in-place update (swarm position update, clipping)
        M2 = I.Individual(list(a))
        M2.__hash__()
        M2.vector = list(c)                           # re-assignment (Job retry)
        M3 = I.Individual(list(a))
        M3.__hash__()
        M3.sync(I.Individual(list(c)))
        F = I.Individual(list(c))
        for tag, M in (('in-place', M1), ('reassigned', M2), ('synced', M3)):
            ctx.check('hash-follows-the-current-vector(%s)' % tag, M.__hash__() != F.__hash__())
            ctx.check('equality-follows-the-current-vector(%s)' % tag, Not(M == F))
    return body


def containers(args):
    """Design vectors stored as numpy arrays (object arrays of proxies / float arrays in replays), each point used in
    MORE THAN ONE comparison: every verdict must be the one for the ORIGINAL coordinates, a comparison must not write
    into its operands, and the hash must still follow the (unchanged) vector afterwards."""
    n = args['n']
    I = _install()
    import numpy as np

    def body(ctx):
        I.Individual.counter = 0
        a = [ctx.real('a%d' % i) for i in range(n)]
        b = [ctx.real('b%d' % i) for i in range(n)]
        c = [ctx.real('c%d' % i) for i in range(n)]
        mk = lambda v: I.Individual(np.array(v, dtype=object if ctx.symbolic else float))
        A, B, C, A2 = mk(a), mk(b), mk(c), mk(a)
        h0 = A.__hash__()
        r1 = (A == B)
        r2 = (A == C)
        r3 = (B == A)
        r4 = (A == A2)
        ctx.output('eq', [bool(r1), bool(r2), bool(r3), bool(r4)])
        ctx.check('first-comparison', Not(Iff(r1, _close(a, b))))
        ctx.check('second-comparison-of-an-already-compared-point', Not(Iff(r2, _close(a, c))))
        ctx.check('swapped-comparison-afterwards', Not(Iff(r3, _close(a, b))))
        ctx.check('equal-to-a-twin-after-comparisons', Not(r4))
        ctx.check('comparison-leaves-its-operands-untouched',
                  Or(*[ops.differs(x, y, 0.0) for P, o in ((A, a), (B, b), (C, c), (A2, a)) for x, y in zip(list(P.vector), o)]))
        ctx.check('hash-unchanged-by-comparisons', A.__hash__() != h0)
        lst = [B, C]
        res = A in lst
        ctx.check('membership-after-comparisons', Not(Iff(res, Or(_close(a, b), _close(a, c)))))
    return body


def membership(args):
    n, k = args['n'], args['k']
    I = _install()
    from artap.archive import Archive

    def body(ctx):
        I.Individual.counter = 0
        lst = [I.Individual([ctx.real('l%d_%d' % (j, i)) for i in range(n)]) for j in range(k)]
        x = I.Individual([ctx.real('x%d' % i) for i in range(n)])
        eqs = [_close(x.vector, m.vector) for m in lst]
        res = x in lst
        ctx.output('in', res)
        ctx.check('in-iff-some-member-equal', Not(Iff(res, Or(*eqs))), witness=_collision(x.vector, lst[-1].vector, n - 1))
        any_eq = [any(child is None for child in ()) ]  # placeholder keeps structure simple
        # the duplicate test used by GeneticAlgorithm.generate
        dup = any(x == o for o in lst)
        ctx.check('generate-duplicate-test', Not(Iff(dup, Or(*eqs))), witness=_collision(x.vector, lst[-1].vector, n - 1))
        work = list(lst)
        try:
            work.remove(x)
            removed = True
        except ValueError:
            removed = False
        ctx.output('removed', removed)
        ctx.check('remove-succeeds-iff-present', Not(Iff(removed, Or(*eqs))))
        if removed:
            gone = [m for m in lst if not any(m is w for w in work)]
            ctx.check('remove-takes-exactly-one', len(gone) != 1 or len(work) != k - 1)
            if len(gone) == 1:
                j = [i for i, m in enumerate(lst) if m is gone[0]][0]
                ctx.check('remove-takes-first-equal-member', Or(Not(eqs[j]), *[eqs[i] for i in range(j)]))
                ctx.check('remove-keeps-order', [m.id for m in work] != [m.id for m in lst if m is not gone[0]])
        else:
            ctx.check('failed-remove-changes-nothing', [m.id for m in work] != [m.id for m in lst])
        arch = Archive()
        arch._contents = list(lst)
        ar = arch.remove(x)
        ctx.check('archive-remove-result', Not(Iff(bool(ar), Or(*eqs))))
        ctx.check('archive-remove-never-drops-distinct',
                  Or(*[And(Not(eqs[j]), not any(c is lst[j] for c in arch)) for j in range(k)]))
        try:
            idx = lst.index(x)
        except ValueError:
            idx = None
        if idx is not None:
            ctx.check('index-points-at-equal-member', Not(eqs[idx]))
    return body


from .xhair import crosshair  # noqa: E402  (second opinion, thorough tier)


def configs(tier):
    N = 4 if tier == 'quick' else 6
    K = 3 if tier == 'quick' else 4
    out = []
    for n in range(1, N + 1):
        out.append({'name': 'eq-n%d' % n, 'task': 'equality', 'args': {'n': n}, 'weight': n})
    for n in ((8,) if tier == 'quick' else (8, 10)):      # size thresholds: long vectors (2^n paths)
        out.append({'name': 'eq-n%d' % n, 'task': 'equality', 'args': {'n': n}, 'weight': 2 ** n, 'split': 32})
    for n in (1, 2, 3):
        for k in range(1, K + 1):
            if tier == 'quick' and n == 3 and k == 3:
                continue
            out.append({'name': 'list-n%d-k%d' % (n, k), 'task': 'membership', 'args': {'n': n, 'k': k},
                        'weight': 4 ** k, 'split': 32 if k >= 3 else None, 'engine': {'validate': 50, 'margin': 1e-12}})
    for n in ((1, 2) if tier == 'quick' else (1, 2, 3)):
        out.append({'name': 'containers-ndarray-n%d' % n, 'task': 'containers', 'args': {'n': n}, 'weight': 4 ** n,
                    'split': 32 if n >= 3 else None, 'engine': {'validate': 50, 'margin': 1e-12}})
    if tier == 'thorough':
        out.append({'name': 'crosshair-second-opinion', 'task': 'crosshair', 'args': {'functions': ['eq_all_coordinates_n2']}, 'weight': 1000,
                    'engine': {'validate': 0, 'path_timeout_s': 900}})
    return out
