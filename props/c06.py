"""C06 -- transient evaluation failures are retried, logged and never recorded as results.

The real Job.evaluate retry loop (through Algorithm.evaluate) runs with an objective
whose every call is a symbolic 4-way choice (ok / TimeoutError / RuntimeError / other
exception): the solver-driven exploration covers ALL fault patterns of the bounded call
sequence, including exactly four and exactly five consecutive failures.  The replacement
design is produced by the real VectorAndNumbers.gen_vector / gen_number with random()
symbolic and round() modelled, so the in-bounds clause is checked on the real sampler.
"""
from symx import core, ops, stubs
from symx.ops import And, Or, Not, Implies
from . import common, evalcommon as ec

PROPERTY = 'C06'

META = {
    'bounds': {'quick': 'parallel path with one design per batch (5 scripted outcome patterns); one design: all 4^k fault patterns of up to 5 objective calls (dim<=2, symbolic box); batch of 2 designs with <=3 injected faults',
               'thorough': 'batch of 2 designs with all patterns (<=6 injected faults), batch of 3 with <=5 faults; one design dim<=3, <=2 constraints'},
    'stubs': ['Problem.evaluate -> uninterpreted function + symbolic fault choice per call (every second injected TimeoutError / RuntimeError is an instance of a subclass)',
              'random() (artap.utils) -> fresh real in [0,1)',
              'round(x) -> fresh integer k with |k-x|<=1/2 (superset of round-half-even)'],
    'assumptions': ['floats as reals (the 1e-12 grid of gen_number is exact in the reals; replays use doubles)',
                    'failures inside worker threads outside (C07 not applicable)',
                    'in-bounds clause: within precision/2 = 0.5e-12 of the box, as the property states'],
}


def preload():
    common.preload_all()


def _install_sampler():
    import artap.utils as U
    stubs.install((U, 'random', stubs.s_random), (U, 'int', ops.sint))


def _mk(dim, box, ncon=0):
    prob = ec.make_problem(dim, ('minimize',), ncon, bounds=box)
    from artap.algorithm import DummyAlgorithm
    return prob, DummyAlgorithm(prob)


class RecordingStore:
    """Stand-in for a persistent store (the non-default `problem.data_store = SqliteDataStore(...)`): remembers what was
    handed to sync_individual, one row per id, last write wins -- the semantics C10 establishes for the real store."""
    def __init__(self):
        self.rows = {}

    def sync_individual(self, individual):
        self.rows[individual.id] = (list(individual.vector), list(individual.costs), individual.state)

    def sync_all(self):
        pass

    def destroy(self):
        pass


def single(args):
    dim = args['dim']
    symbolic_box = args.get('symbolic_box', False)
    from artap.individual import Individual
    ncon = args.get('ncon', 0)
    _install_sampler()
    prob, alg = _mk(dim, [(-1.0, 2.0)] * dim, ncon)

    def body(ctx):
        ec.reset_problem(prob, ctx, faults=True)
        if symbolic_box:
            for i, p in enumerate(prob.parameters):
                lo = ctx.real('lb%d' % i)
                hi = ctx.real('ub%d' % i)
                ctx.assume(lo <= hi)
                p['bounds'] = [lo, hi]
        else:
            for p in prob.parameters:
                p['bounds'] = [-1.0, 2.0]
        if args.get('first_precision'):
            # the first parameter declares a coarse precision, the others none: the re-sampled design must still
            # respect every parameter's own bounds (default precision 1e-12 for the others)
            prob.parameters[0]['precision'] = args['first_precision']
            prob.parameters[0]['bounds'] = [-1.0, 2.0]
            if dim > 1:
                prob.parameters[1]['bounds'] = [0.2, 0.4]
        else:
            prob.parameters[0].pop('precision', None)
        store = RecordingStore() if args.get('store') else None
        if store is not None:
            prob.data_store = store
        ind = Individual([ctx.real('x%d' % i) for i in range(dim)])
        for x, p in zip(ind.vector, prob.parameters):
            ctx.assume(And(x >= p['bounds'][0], x <= p['bounds'][1]))
        first = list(ind.vector)
        exc = None
        try:
            alg.evaluate([ind])
        except (RuntimeError, TimeoutError, ec.OtherError) as e:
            exc = e
        calls = prob.h.calls
        pattern = [f for _v, _x, f in calls]
        ctx.output('pattern', pattern)
        ctx.output('exc', type(exc).__name__ if exc else None)
        ctx.check('at-most-five-attempts', len(calls) > 5 or len(calls) < 1)
        transient = [c for c in calls if c[2] in ('timeout', 'runtime')]
        ctx.check('failed-list-length', len(prob.failed) != len(transient))
        ctx.check('first-call-on-original-vector', Not(ec.same_vec(calls[0][0], first)))
        for k, (vec, _x, f) in enumerate(transient):
            if k < len(prob.failed):
                ctx.check('failed-entry-holds-failed-vector', Not(ec.same_vec(prob.failed[k].vector, vec)))
                ctx.check('failed-entry-state', prob.failed[k].state != Individual.State.FAILED)
        # every attempted vector lies in the box up to half the rounding grid
        for vec, _x, f in calls:
            for x, p in zip(vec, prob.parameters):
                half = p.get('precision', 1e-12) / 2
                ctx.check('attempt-inside-box', Or(x < p['bounds'][0] - half, x > p['bounds'][1] + half))
        last = pattern[-1]
        if last == 'ok':
            ctx.check('no-exception-on-success', exc is not None)
            ctx.check('state-evaluated', ind.state != Individual.State.EVALUATED)
            ctx.check('stored-vector-is-evaluated-vector', Not(ec.same_vec(ind.vector, calls[-1][0])))
            ctx.check('stored-costs-belong-to-stored-vector', len(ind.costs) != 1 or ind.costs[0] != calls[-1][1][0])
            ctx.check('only-transient-before-success', any(f == 'other' for f in pattern[:-1]))
            if ncon:
                # the feasibility marker must belong to the finally stored vector, not to a discarded one
                # (some constraint evaluation on a vector equal to the stored one must justify the marker;
                # which call it was, and whether others happened, is the implementation's business)
                if len(ind.costs_signed) != 2:
                    ctx.check('marker-belongs-to-the-stored-vector', True)
                else:
                    ok = [And(ec.same_vec(cvec, ind.vector), ops.Iff(bool(ind.costs_signed[-1]) is False, And(*[v < 0 for v in cvals])))
                          for cvec, cvals in prob.h.con_calls]
                    ctx.check('marker-belongs-to-the-stored-vector', Not(Or(*ok)))
        elif last == 'other':
            ctx.check('other-exception-propagates', not isinstance(exc, ec.OtherError))
            ctx.check('not-evaluated-after-other', ind.state == Individual.State.EVALUATED)
            ctx.check('other-stops-immediately', pattern.index('other') != len(pattern) - 1)
        else:
            ctx.check('five-transient-failures-needed', len(calls) != 5 or any(f == 'ok' or f == 'other' for f in pattern))
            ctx.check('runtime-error-after-five', not isinstance(exc, RuntimeError))
            ctx.check('not-evaluated-after-giving-up', ind.state == Individual.State.EVALUATED)
        if store is not None:
            # "never recorded as results": with a store attached, the persisted rows are the results a later view reads --
            # only the design under evaluation may have a row, and after a success that row holds its final data
            ctx.check('store-holds-no-row-of-a-failed-design', any(i != ind.id for i in store.rows))
            for fi in prob.failed:
                ctx.check('failed-design-has-no-row', fi.id in store.rows and fi.id != ind.id)
            if last == 'ok':
                row = store.rows.get(ind.id)
                ctx.check('evaluated-design-has-a-row', row is None)
                if row is not None:
                    ctx.check('row-holds-the-final-vector', Not(ec.same_vec(row[0], ind.vector)))
                    ctx.check('row-holds-the-final-costs', len(row[1]) != 1 or row[1][0] != calls[-1][1][0])
                    ctx.check('row-state-evaluated', row[2] != Individual.State.EVALUATED)
        # reachability witnesses for the patterns the property names
        if len(calls) == 5 and last == 'ok':
            ctx.reach('exactly-four-failures-then-success')
        if len(calls) == 5 and last in ('timeout', 'runtime'):
            ctx.reach('exactly-five-failures')
    return body


def batch(args):
    b, maxf = args['b'], args['max_faults']
    from artap.individual import Individual
    _install_sampler()
    prob, alg = _mk(1, [(0.0, 1.0)])

    def body(ctx):
        ec.reset_problem(prob, ctx, faults=True, max_faults=maxf)
        prob.parameters[0]['bounds'] = [0.0, 1.0]
        inds = [Individual([ctx.real('d%d_x0' % i, 0.0, 1.0)]) for i in range(b)]
        exc = None
        try:
            alg.evaluate(inds)
        except (RuntimeError, TimeoutError, ec.OtherError) as e:
            exc = e
        calls = prob.h.calls
        ctx.output('pattern', [f for _v, _x, f in calls])
        # partition the call sequence per design: a design's attempts end with ok / other / 5th failure
        pos = 0
        done = 0
        for i, ind in enumerate(inds):
            if pos >= len(calls):
                break
            seg = []
            while pos < len(calls):
                seg.append(calls[pos])
                pos += 1
                if seg[-1][2] in ('ok', 'other') or len(seg) == 5:
                    break
            ctx.check('batch-attempts<=5', len(seg) > 5)
            if seg[-1][2] == 'ok':
                done += 1
                ctx.check('batch-state', ind.state != Individual.State.EVALUATED)
                ctx.check('batch-vector', Not(ec.same_vec(ind.vector, seg[-1][0])))
                ctx.check('batch-costs', len(ind.costs) != 1 or ind.costs[0] != seg[-1][1][0])
            else:
                ctx.check('batch-stops-at-propagated-exception', pos != len(calls) or exc is None)
                ctx.check('batch-not-evaluated', ind.state == Individual.State.EVALUATED)
        ctx.check('batch-all-calls-accounted', pos != len(calls))
        # without constraints every design satisfies "all constraints": retried designs must carry the
        # same feasibility marker as designs evaluated at the first attempt (otherwise a retry alone
        # changes the dominance rank of a design)
        ev = [x for x in inds if x.state == Individual.State.EVALUATED]
        ctx.check('retry-does-not-change-the-feasibility-marker',
                  any(len(x.costs_signed) != 2 for x in ev) or len(set(bool(x.costs_signed[-1]) for x in ev if len(x.costs_signed) == 2)) > 1)
        ctx.check('batch-complete-without-exception', exc is None and done != b)
        ntrans = sum(1 for c in calls if c[2] in ('timeout', 'runtime'))
        ctx.check('batch-failed-list', len(prob.failed) != ntrans)
        later = [ind for ind in inds[done + (1 if exc is not None else 0):]]
        if exc is not None:
            ctx.check('batch-later-designs-untouched', any(x.state != Individual.State.EMPTY for x in later))
    return body


def parallel_path(args):
    """The parallel evaluation path (options['max_processes'] > 1: joblib worker THREADS) with ONE design per batch, so
    that no two workers run at the same time (thread interleavings are C07 / not applicable).  What is decided here is
    only what the caller sees: the outcome per objective call is scripted, the design and the objective values are
    symbolic.  Five consecutive transient failures -> RuntimeError reaches the caller; any other exception propagates and
    the design is not marked evaluated; four failures then success -> evaluated with the costs of the stored vector."""
    script, expect = args['script'], args['expect']
    from artap.individual import Individual
    _install_sampler()
    prob, alg = _mk(1, [(-1.0, 2.0)])

    def body(ctx):
        ec.reset_problem(prob, ctx)
        prob.h.fault_script = list(script)
        alg.options['max_processes'] = 2
        ind = Individual(ec.sym_vector(ctx, 'd', prob))
        raised = None
        import contextlib, io
        try:
            with contextlib.redirect_stdout(io.StringIO()), contextlib.redirect_stderr(io.StringIO()):   # joblib's progress lines
                alg.evaluate([ind])
        except ec.OtherError as e:
            raised = 'other'
        except RuntimeError as e:
            raised = 'runtime'
        except TimeoutError as e:
            raised = 'timeout'
        finally:
            alg.options['max_processes'] = 1
        ctx.output('raised', raised)
        ctx.check('parallel-path-outcome-seen-by-the-caller', raised != expect)
        ctx.check('parallel-path-one-objective-call-per-attempt', len(prob.h.calls) != len(script))
        nfail = len([c for c in prob.h.calls if c[2] != 'ok'])
        if expect is None:
            ctx.check('parallel-path-evaluated', ind.state != Individual.State.EVALUATED or len(ind.costs) != 1)
            if ind.state == Individual.State.EVALUATED and len(ind.costs) == 1:
                vec, vals, _f = prob.h.calls[-1]
                ctx.check('parallel-path-costs-belong-to-the-stored-vector', Or(Not(ec.same_vec(vec, ind.vector)), ind.costs[0] != vals[0]))
            ctx.check('parallel-path-failed-vectors-logged', len(prob.failed) != nfail)
        else:
            ctx.check('parallel-path-not-marked-evaluated', ind.state == Individual.State.EVALUATED)
    return body


def configs(tier):
    out = [
        {'name': 'single-dim1', 'task': 'single', 'args': {'dim': 1}, 'weight': 10, 'engine': {'validate': 100}},
        {'name': 'single-dim2-symbolic-box', 'task': 'single', 'args': {'dim': 2, 'symbolic_box': True}, 'weight': 20,
         'split': 32, 'engine': {'validate': 60}},
        {'name': 'single-dim2-precision-on-first-parameter-only', 'task': 'single', 'args': {'dim': 2, 'first_precision': 1.0}, 'weight': 20,
         'split': 32, 'engine': {'validate': 60}},
        {'name': 'single-dim1-constraints', 'task': 'single', 'args': {'dim': 1, 'ncon': 1}, 'weight': 20, 'split': 32,
         'engine': {'validate': 60}},
        {'name': 'single-dim1-store-attached', 'task': 'single', 'args': {'dim': 1, 'store': True}, 'weight': 10, 'engine': {'validate': 100}},
        {'name': 'batch-b2-f3', 'task': 'batch', 'args': {'b': 2, 'max_faults': 3}, 'weight': 15, 'split': 32,
         'engine': {'validate': 60}},
    ]
    for name, script, expect in (('five-failures', ['runtime', 'timeout', 'runtime', 'timeout', 'runtime'], 'runtime'),
                                 ('four-failures-then-success', ['timeout', 'runtime', 'timeout', 'runtime', 'ok'], None),
                                 ('other-exception', ['other'], 'other'), ('failure-then-other-exception', ['runtime', 'other'], 'other'),
                                 ('success', ['ok'], None)):
        out.append({'name': 'parallel-path-' + name, 'task': 'parallel_path', 'args': {'script': script, 'expect': expect},
                    'weight': 3, 'engine': {'validate': 5}})
    if tier == 'thorough':
        # the attached store combined with the other options of the retry harness
        out.append({'name': 'single-dim1-constraints-store-attached', 'task': 'single', 'args': {'dim': 1, 'ncon': 1, 'store': True}, 'weight': 20,
                    'split': 32, 'engine': {'validate': 60}})
        out.append({'name': 'single-dim2-precision-on-first-parameter-only-store-attached', 'task': 'single',
                    'args': {'dim': 2, 'first_precision': 1.0, 'store': True}, 'weight': 20, 'split': 32, 'engine': {'validate': 60}})
        out.append({'name': 'batch-b2-f6', 'task': 'batch', 'args': {'b': 2, 'max_faults': 6}, 'weight': 40, 'split': 64,
                    'engine': {'validate': 60}})
        out.append({'name': 'batch-b3-f3', 'task': 'batch', 'args': {'b': 3, 'max_faults': 3}, 'weight': 30, 'split': 64,
                    'engine': {'validate': 60}})
        out.append({'name': 'batch-b3-f5', 'task': 'batch', 'args': {'b': 3, 'max_faults': 5}, 'weight': 60, 'split': 96,
                    'engine': {'validate': 60}})
        out.append({'name': 'single-dim2-constraints2', 'task': 'single', 'args': {'dim': 2, 'ncon': 2}, 'weight': 30, 'split': 64,
                    'engine': {'validate': 60}})
        out.append({'name': 'single-dim3-precision-on-first-parameter-only', 'task': 'single', 'args': {'dim': 3, 'first_precision': 0.5},
                    'weight': 30, 'split': 64, 'engine': {'validate': 60}})
        out.append({'name': 'single-dim3-symbolic-box', 'task': 'single', 'args': {'dim': 3, 'symbolic_box': True}, 'weight': 30,
                    'split': 64, 'engine': {'validate': 60}})
    return out
