"""C04 -- the archive holds exactly the non-dominated set of everything ever offered.

 1. Inductive step: the pre-state is an ARBITRARY archive of n members whose cost
    vectors are solver variables, assumed to satisfy the representation invariant
    (mutually non-dominated, pairwise different vectors); one real Archive.add(x) with an
    arbitrary x.  Post-state = ND(S u {x}) with one representative per vector, return
    value = "x is in the archive now", invariant re-established.  By induction this covers
    histories of any length; because ND(.) of a set is order independent, it also gives
    order independence.
 2. Bounded histories from the empty archive (guards against an invariant that is too
    weak and covers append/extend/+=): k additions of arbitrary vectors, post-state
    compared with ND(all offered); two orders of the same vectors give the same set.
 3. Archive.truncate with symbolic feature values (reals or inf) and symbolic size.
Both comparators are used through summaries rebuilt from source; the oracle is the
textbook relation.
"""
import math

from symx import core, ops, stubs
from symx.ops import And, Or, Not, Implies, Iff
from . import common
from .common import dominates

PROPERTY = 'C04'

EPS = {1: [0.1], 2: [0.1, 0.1], 3: [0.05, 0.2, 1.5]}

META = {
    'bounds': {'quick': 'real-valued feasibility markers (n<=2); concrete staircase archives of 6/7/9 members + symbolic newcomer; shared default comparator k<=3, m<=3; step: n<=4 members, m<=2 objectives (+ boolean marker), Pareto and epsilon comparator; histories k<=3, m<=2; truncate n<=4',
               'thorough': 'step: n<=6 (m<=2), n<=5 (m=3); histories k<=4 (m<=2), k<=3 (m=3); truncate n<=5'},
    'stubs': ['ParetoDominance.compare / EpsilonDominance.compare (fixed positive epsilon lists) through ite summaries'],
    'assumptions': ['floats as reals (epsilon tie-break of identical vectors: dist1 = dist2 = 0 in the reals)',
                    'archives larger than the bound in the step and histories longer than the bound from empty are covered only through the induction',
                    'symbolic epsilons not used here (fixed positive lists); see C01 for the comparator laws'],
}


def preload():
    common.preload_all()


def _eqvec(a, b):
    return And(*[x == y for x, y in zip(a, b)])


def _setup(m, comparator):
    import artap.operators as O
    from artap.archive import Archive
    st = common.install_comparator_summaries([m + 1], eps_lists=[EPS[m]] if comparator == 'eps' else ())
    dom = O.ParetoDominance() if comparator == 'pareto' else O.EpsilonDominance(list(EPS[m]))
    return Archive, dom, st


def step(args):
    n, m, comparator = args['n'], args['m'], args['cmp']
    from artap.individual import Individual
    Archive, dom, st = _setup(m, comparator)

    def body(ctx):
        Individual.counter = 0
        S = []
        designs = args.get('designs') or list(range(n))     # members may share a design vector
        for i in range(n):
            ind = Individual([float(designs[i]), 0.5])
            if args.get('staircase'):
                # LARGE archive: the members are a concrete staircase of mutually non-dominated points (only the
                # newcomer is symbolic), so that archive sizes far beyond the fully symbolic bound are reached
                ind.costs_signed = ([float(i), float(n - i)] + [1.0] * (m - 2))[:m] + [True]
            else:
                ind.costs_signed = common.sym_costs(ctx, 's%d' % i, m, args.get('marker', 'bool'))
            S.append(ind)
        x = Individual([float(args.get('xdesign', 99)), 0.5])
        x.costs_signed = common.sym_costs(ctx, 'x', m, args.get('marker', 'bool'))
        if args.get('marker') == 'real' and comparator == 'eps':
            # markers of equal magnitude and opposite sign are 'equally (in)feasible' but not equal as numbers: whether two
            # such solutions with the same objectives are ONE offered vector or two is not fixed by the property, and the
            # epsilon comparator (which must name a loser for identical objectives) treats them as one -- excluded
            for a_ in S + [x]:
                for b_ in S + [x]:
                    if a_ is not b_:
                        ctx.assume(Or(a_.costs_signed[-1] == b_.costs_signed[-1], abs(a_.costs_signed[-1]) != abs(b_.costs_signed[-1])))
        # representation invariant of the pre-state
        for i in range(n):
            for j in range(n):
                if i < j:
                    ctx.assume(Not(_eqvec(S[i].costs_signed, S[j].costs_signed)))
                if i != j:
                    ctx.assume(Not(dominates(S[i].costs_signed, S[j].costs_signed)))
        arch = Archive(dominance=dom)
        if args.get('after_truncate'):
            # lifecycle: the pre-state is produced by the archive's own operations -- real add() of the staircase plus two
            # further staircase members, then truncate() back to n members -- and the symbolic newcomer (which may repeat the
            # cost vector of a member that truncate dropped) is offered afterwards.  Should the archive key a set / dict on
            # cost values: every symbolic number hashes alike, Python falls back to == (which forks symbolically).
            ctx.hash_hook = lambda v: 0
            extra = []
            for i in range(n, n + 2):
                e = Individual([float(i), 0.5])
                e.costs_signed = ([float(i), float(n - i)] + [1.0] * (m - 2))[:m] + [True]
                extra.append(e)
            x.costs_signed = list(x.costs_signed[:-1]) + [True]
            for k, e in enumerate(S + extra):
                e.features['f'] = float(k)
                # pinned symbolic costs (so that they hash like the newcomer's: sound only if every key is symbolic)
                pinned = []
                for q, val in enumerate(e.costs_signed[:-1]):
                    c = ctx.real('p%d_%d' % (k, q))
                    ctx.assume(c == val)
                    pinned.append(c)
                e.costs_signed = pinned + [True]
                arch.add(e)
            arch.truncate(n, 'f')
            S = list(arch)
            ctx.check('truncate-keeps-n-members', len(S) != n)
        else:
            arch._contents = list(S)
        ret = arch.add(x)
        cont = list(arch)
        ctx.output('ret', bool(ret))
        ctx.output('kept', [c.id for c in cont])
        inside = lambda e: any(c is e for c in cont)
        ctx.check('no-foreign-members', any(not (c is x or any(c is s for s in S)) for c in cont))
        ctx.check('no-object-twice', len(set(id(c) for c in cont)) != len(cont))
        ctx.check('len', len(arch) != len(cont))
        for s in S:
            ctx.check('member-kept-iff-not-dominated-by-new', Not(Iff(inside(s), Not(dominates(x.costs_signed, s.costs_signed)))))
        exp_x = And(*[And(Not(dominates(s.costs_signed, x.costs_signed)), Not(_eqvec(s.costs_signed, x.costs_signed))) for s in S])
        ctx.check('new-inserted-iff-nondominated-and-new', Not(Iff(inside(x), exp_x)))
        ctx.check('return-value-is-insertion', bool(ret) != inside(x))
        # invariant re-established
        inv = []
        for a in cont:
            for b in cont:
                if a is not b:
                    inv.append(dominates(a.costs_signed, b.costs_signed))
                    inv.append(_eqvec(a.costs_signed, b.costs_signed))
        ctx.check('invariant-preserved', Or(*inv))
        # everything that is not in the archive is dominated by or equal to a member
        for e in S + [x]:
            if not inside(e):
                ctx.check('outsider-covered', Not(Or(*[Or(dominates(c.costs_signed, e.costs_signed),
                                                          _eqvec(c.costs_signed, e.costs_signed)) for c in cont])))
    return common.merge_stats(body, st)


def history(args):
    k, m, comparator, how = args['k'], args['m'], args['cmp'], args.get('how', 'add')
    from artap.individual import Individual
    Archive, dom, st = _setup(m, comparator)

    def feed(arch, items):
        rets = []
        if how == 'add':
            for e in items:
                r = arch.add(e)
                rets.append((e, bool(r), any(c is e for c in arch)))
        elif how == 'extend':
            arch.extend(items)
        elif how == 'iadd':
            arch += items
        elif how == 'append':
            for e in items:
                arch.append(e)
        return rets

    def body(ctx):
        Individual.counter = 0
        E = []
        for i in range(k):
            ind = Individual([float(i % 2) if args.get('shared_designs') else float(i), 0.5])
            ind.costs_signed = common.sym_costs(ctx, 'e%d' % i, m, 'bool')
            E.append(ind)
        if args.get('default_comparator'):
            # every Archive() built without an explicit comparator shares ONE default EpsilonDominance instance (a
            # default argument): another archive of the same process has used it before, on vectors with a different
            # number of objectives (the swarm algorithms' leader archives do exactly that)
            other = Archive()
            for j in range(3):
                o = Individual([100.0 + j, 0.5])
                o.costs_signed = [float(j), float(2 - j)][:args['default_comparator']] + [True]
                other.add(o)
            arch = Archive()
        else:
            arch = Archive(dominance=dom)
        rets = feed(arch, E)
        cont = list(arch)
        ctx.output('kept', [c.id for c in cont])
        ctx.check('members-are-offered', any(not any(c is e for e in E) for c in cont))
        for e, r, ins in rets:
            ctx.check('return-value-is-insertion', r != ins)
        for i, e in enumerate(E):
            nd = And(*[Not(dominates(o.costs_signed, e.costs_signed)) for o in E if o is not e])
            rep = Or(*[_eqvec(c.costs_signed, e.costs_signed) for c in cont])
            ctx.check('content-is-ND-of-offered', Not(Iff(nd, rep)))
        dup = [_eqvec(a.costs_signed, b.costs_signed) for i, a in enumerate(cont) for b in cont[i + 1:]]
        ctx.check('one-representative-per-vector', Or(*dup))
        if args.get('perm'):
            arch2 = Archive(dominance=dom)
            feed(arch2, list(reversed(E)))
            c2 = list(arch2)
            same = And(*[Or(*[_eqvec(a.costs_signed, b.costs_signed) for b in c2]) for a in cont] +
                        [Or(*[_eqvec(a.costs_signed, b.costs_signed) for b in cont]) for a in c2])
            ctx.check('order-independent', Not(same))
    return common.merge_stats(body, st)


def truncate(args):
    n, larger = args['n'], args['larger']
    from artap.individual import Individual
    from artap.archive import Archive

    def body(ctx):
        Individual.counter = 0
        S = []
        for i in range(n):
            ind = Individual([float(i)])
            if ctx.bool('isinf%d' % i):
                ind.features['f'] = math.inf
            else:
                ind.features['f'] = ctx.real('f%d' % i)
            S.append(ind)
        arch = Archive()
        arch._contents = list(S)
        size = ctx.int('size', 0, n + 1)
        if args.get('default_arg'):
            arch.truncate(size, 'f')
        else:
            arch.truncate(size, 'f', larger_preferred=larger)
        sc = ctx.concretize(size)
        cont = list(arch)
        ctx.output('kept', [c.id for c in cont])
        ctx.check('length', len(cont) != min(sc, n))
        ctx.check('members', any(not any(c is s for s in S) for c in cont) or len(set(id(c) for c in cont)) != len(cont))
        dropped = [s for s in S if not any(c is s for c in cont)]
        f = lambda z: z.features['f']
        if larger:
            ctx.check('keeps-largest', Or(*[f(a) < f(b) for a in cont for b in dropped]))
        else:
            ctx.check('keeps-smallest', Or(*[f(a) > f(b) for a in cont for b in dropped]))
    return body


def remove(args):
    """Archive.remove(solution): True and gone if present (by design-point equality), False otherwise."""
    n = args['n']
    from artap.individual import Individual
    from artap.archive import Archive

    def body(ctx):
        Individual.counter = 0
        S = [Individual([float(i), 1.0]) for i in range(n)]
        arch = Archive()
        arch._contents = list(S)
        j = ctx.choice('which', n + 1)
        target = S[j] if j < n else Individual([55.0, 1.0])
        r = arch.remove(target)
        cont = list(arch)
        ctx.output('ret', bool(r))
        ctx.check('remove-result', bool(r) != (j < n))
        ctx.check('remove-effect', [c.id for c in cont] != [s.id for s in S if s is not target])
    return body


def configs(tier):
    out = []

    def add_step(n, m, cmp_, split=None, designs=None, xdesign=99):
        tag = '' if designs is None else '-designs' + ''.join(map(str, designs)) + 'x%d' % xdesign
        out.append({'name': 'step-n%d-m%d-%s%s' % (n, m, cmp_, tag), 'task': 'step',
                    'args': {'n': n, 'm': m, 'cmp': cmp_, 'designs': designs, 'xdesign': xdesign},
                    'weight': 3 ** n * m, 'split': split, 'engine': {'validate': 40}})

    def add_hist(k, m, cmp_, how='add', perm=False, split=None, shared=False):
        out.append({'name': 'hist-k%d-m%d-%s-%s%s%s' % (k, m, cmp_, how, '-perm' if perm else '', '-shared-designs' if shared else ''), 'task': 'history',
                    'args': {'k': k, 'm': m, 'cmp': cmp_, 'how': how, 'perm': perm, 'shared_designs': shared}, 'weight': 3 ** (k * 2), 'split': split,
                    'engine': {'validate': 40}})

    for cmp_ in ('pareto', 'eps'):
        for n in ((6, 9) if cmp_ == 'pareto' else (7,)):
            out.append({'name': 'step-staircase-n%d-m2-%s' % (n, cmp_), 'task': 'step',
                        'args': {'n': n, 'm': 2, 'cmp': cmp_, 'staircase': True}, 'weight': 40 * n, 'split': 32, 'engine': {'validate': 40}})
        out.append({'name': 'step-after-add-and-truncate-n3-m2-%s' % cmp_, 'task': 'step',
                    'args': {'n': 3, 'm': 2, 'cmp': cmp_, 'staircase': True, 'after_truncate': True}, 'weight': 120, 'split': 32, 'engine': {'validate': 40}})
        for n in (0, 1, 2, 3, 4):
            for m in (1, 2):
                add_step(n, m, cmp_, split=24 if n >= 4 else None)
        # members that share a design vector (repeated / noisy evaluations of one design)
        # real-valued feasibility markers (any sign, equal magnitudes included) instead of the 0/1 markers
        out.append({'name': 'step-n2-m2-%s-real-markers' % cmp_, 'task': 'step', 'args': {'n': 2, 'm': 2, 'cmp': cmp_, 'marker': 'real'},
                    'weight': 200, 'split': 32, 'engine': {'validate': 40}})
        out.append({'name': 'step-n1-m1-%s-real-markers' % cmp_, 'task': 'step', 'args': {'n': 1, 'm': 1, 'cmp': cmp_, 'marker': 'real'},
                    'weight': 20, 'engine': {'validate': 40}})
        add_step(2, 2, cmp_, designs=[0, 0])
        add_step(3, 2, cmp_, designs=[0, 1, 0], xdesign=1)
        add_step(3, 2, cmp_, designs=[0, 0, 0], xdesign=0)
        add_hist(2, 2, cmp_)
        add_hist(3, 1, cmp_)
        add_hist(3, 2, cmp_, split=32)
    add_hist(3, 2, 'pareto', how='extend', perm=True, split=32)
    add_hist(3, 2, 'pareto', how='add', shared=True, split=32)
    add_hist(3, 1, 'eps', how='iadd', perm=True)
    add_hist(2, 2, 'pareto', how='append')
    for k, m, first in ((2, 3, 2), (2, 1, 2), (3, 2, 1)):
        out.append({'name': 'hist-k%d-m%d-default-comparator-used-before-with-%d-objectives' % (k, m, first), 'task': 'history',
                    'args': {'k': k, 'm': m, 'cmp': 'eps', 'how': 'add', 'perm': False, 'default_comparator': first},
                    'weight': 3 ** (k * 2) * 4, 'split': 32, 'engine': {'validate': 40}})
    for n in (1, 2, 3, 4):
        out.append({'name': 'truncate-n%d-larger' % n, 'task': 'truncate', 'args': {'n': n, 'larger': True, 'default_arg': n % 2 == 0},
                    'weight': 4 ** n, 'split': 32 if n >= 4 else None, 'engine': {'validate': 40}})
    out.append({'name': 'truncate-n3-smaller', 'task': 'truncate', 'args': {'n': 3, 'larger': False}, 'weight': 50,
                'engine': {'validate': 40}})
    if tier == 'thorough':
        for cmp_ in ('pareto', 'eps'):
            add_step(5, 2, cmp_, split=64)
            add_step(6, 2, cmp_, split=96)
            add_step(3, 3, cmp_, split=32)
            add_step(4, 3, cmp_, split=64)
            add_step(5, 3, cmp_, split=96)
            add_hist(4, 2, cmp_, split=96)
            add_hist(3, 3, cmp_, split=64)
            add_hist(4, 1, cmp_, split=32)
        add_hist(4, 2, 'pareto', how='iadd', perm=True, split=96)
        out.append({'name': 'truncate-n5-larger', 'task': 'truncate', 'args': {'n': 5, 'larger': True}, 'weight': 4 ** 5,
                    'split': 96, 'engine': {'validate': 40}})
    return out
