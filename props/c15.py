"""C15 -- single-objective benchmarks: total on their box, optimum where and as documented.

The real evaluate() of every BenchmarkFunction subclass of artap/benchmark_functions.py
(lines 164-988) and artap/benchmark_robust.py runs on a symbolic point of its declared
box.  Clauses:
  (T) totality      the call returns a one-element list without raising, for every point
                    of the box (proxies stand for plain Python floats: they expose no
                    NumPy-scalar methods, so e.g. `summa.any()` fails on them as on a float)
  (O) optimum value at the documented coordinates |f - f*| <= 1e-3.  This clause has no
                    quantifier; it is evaluated on the real code with Python floats and with
                    numpy.float64 coordinates (XinSheYang-3: its random draws are symbolic)
  (B) bound         no point of the box beats the documented optimum by more than 1e-3 in the
                    declared optimisation direction.  Decided by the solver with the lemma
                    library for the functions listed in DECIDED_B; for the others the clause
                    is reported as undecided (no delta-complete solver for transcendental
                    extrema is available) and a cheap refutation attempt is made: a solver
                    model that reproduces on the real code is still a violation.
"""
import math
import time
from fractions import Fraction

import numpy as np

from symx import core, ops, stubs
from symx.ops import And, Or, Not
from . import common

PROPERTY = 'C15'
TOL = 1e-3

META = {
    'bounds': {'quick': 'concrete tied-coordinate samples with the bound clause; state preservation + second call on every function object; every function in dimensions 1..3 where the constructor accepts them (Michalewicz 2,5,10; fixed-dimension functions as declared)',
               'thorough': 'adds dimensions 4-6 for the polynomial / per-coordinate functions'},
    'stubs': ['numpy ufuncs on proxies (np.cos/sin/exp/sqrt/fabs/abs) -> uninterpreted functions + lemma library',
              'random.uniform (XinSheYang-3) -> fresh real in [0,1]',
              'x**20 (Michalewicz) -> uninterpreted monomial'],
    'assumptions': ['floats as reals; constants such as np.pi / np.e are the exact rational values of the doubles',
                    '(B) is proved with sound lemma instances (ranges, monotonicity, convexity, exp(t)<=1/(1-t), Taylor enclosures); '
                    'z3 (incl. its nlsat tactic) trusted'],
    'undecided': ['(B) for Michalewicz, Schubert, Synthetic5D/10D (need branch-and-bound over transcendental terms beyond what z3 decides here; GramacyLee, Synthetic1D and Synthetic2D ARE decided that way, configs BB-*); '
                  '(T) and (O) are still checked for them, and (B) is still attempted as a refutation query'],
}


def preload():
    common.preload_all()
    import artap.benchmark_functions  # noqa
    import artap.benchmark_robust  # noqa


def _classes():
    import artap.benchmark_functions as BF
    import artap.benchmark_robust as BR
    return BF, BR


# name -> (module attr, class name, list of kwargs, prove_B, engine overrides)
def specs(tier):
    dims = (1, 2, 3) if tier == 'quick' else (1, 2, 3, 4, 5)
    D = lambda ds: [{'dimension': d} for d in ds]
    S = []
    S.append(('Rosenbrock', 'BF', D([d for d in dims if d >= 2]), True, {'mode': 'havoc', 'square_abs': True}))
    S.append(('Ackley', 'BF', D(dims), True, {}))
    S.append(('Sphere', 'BF', D(dims), True, {'mode': 'havoc', 'square_abs': True}))
    S.append(('Schwefel', 'BF', D((1, 2, 3)), 'schwefel', {}))
    S.append(('ModifiedEasom', 'BF', D((1, 2, 3)), True, {}))
    S.append(('EqualityConstr', 'BF', D((1, 2, 3) if tier == 'quick' else (1, 2, 3, 4)), True, {}))
    S.append(('Griewank', 'BF', D((1, 2, 3)), True, {}))
    S.append(('Michaelwicz', 'BF', D((2, 5, 10)), False, {}))
    S.append(('Perm', 'BF', D((1, 2, 3)), True, {'mode': 'havoc', 'square_abs': True}))
    S.append(('Rastrigin', 'BF', D(dims), True, {}))
    S.append(('SixHump', 'BF', [{}], True, {}))
    S.append(('Schubert', 'BF', [{}], False, {}))
    S.append(('Zakharov', 'BF', D(dims), True, {'mode': 'havoc', 'square_abs': True}))
    S.append(('XinSheYang', 'BF', D((1, 2, 3)), True, {}))
    S.append(('XinSheYang2', 'BF', D((1, 2)), True, {}))
    S.append(('XinSheYang3', 'BF', D((1, 2, 3)), True, {}))
    S.append(('Booth', 'BF', [{}], True, {'mode': 'havoc', 'square_abs': True}))
    S.append(('GramacyLee', 'BF', [{}], False, {}))
    S.append(('AlpineFunction', 'BF', D(dims), True, {}))
    S.append(('Synthetic1D', 'BR', [{}], False, {}))
    S.append(('Synthetic2D', 'BR', [{}], False, {}))
    S.append(('Synthetic5D', 'BR', [{}], False, {}))
    S.append(('Synthetic10D', 'BR', [{}], False, {}))
    return S


def _make(name, modk, kwargs):
    BF, BR = _classes()
    stubs.install((BF, 'uniform', stubs.s_uniform), (BF, 'np', stubs.numpy_shim_light), (BF, 'float', ops.sfloat))
    cls = getattr(BF if modk == 'BF' else BR, name)
    def other_object(delta):
        # state that survives between uses: ANOTHER object of the same class (another dimension where the constructor
        # takes one) is created and used in the same process -- one before and one AFTER the object under test
        if 'XinSheYang' in name:
            return None
        try:
            from artap.individual import Individual
            o = cls(**dict(kwargs, dimension=max(1, kwargs['dimension'] + delta))) if 'dimension' in kwargs else cls(**kwargs)
            o.evaluate(Individual([0.5 * (p['bounds'][0] + p['bounds'][1]) for p in o.parameters]))
            return o
        except Exception:
            return None
    before = other_object(+1)
    prob = cls(**kwargs)
    prob._symx_keep_alive = (before, other_object(+3), other_object(-1))
    return prob


def _direction(prob):
    c = prob.costs[0].get('criteria', 'minimize')
    return 'max' if c == 'maximize' else 'min'


def _documented(prob):
    """What the function object documents about itself; evaluate() must leave it alone."""
    import copy
    return copy.deepcopy({'optimum': getattr(prob, 'global_optimum', None), 'coords': getattr(prob, 'global_optimum_coords', None),
                          'bounds': [list(p['bounds']) for p in prob.parameters], 'dimension': getattr(prob, 'dimension', None)})


def _same_documented(a, b):
    def eq(x, y):
        if isinstance(x, (list, tuple)) or isinstance(y, (list, tuple)):
            try:
                return len(x) == len(y) and all(eq(u, w) for u, w in zip(x, y))
            except TypeError:
                return False
        if isinstance(x, dict):
            return isinstance(y, dict) and x.keys() == y.keys() and all(eq(x[k], y[k]) for k in x)
        return bool(x == y)
    return eq(a, b)


def totality_and_bound(args):
    name, modk, kwargs, prove = args['name'], args['mod'], args['kwargs'], args['prove']
    from artap.individual import Individual
    prob = _make(name, modk, kwargs)
    doc0 = _documented(prob)
    n = len(prob.parameters)
    opt = getattr(prob, 'global_optimum', None)
    direction = _direction(prob)

    def body(ctx):
        ops.configure(taylor=(prove == 'schwefel'), taylor6=(prove == 'schwefel'), exp_monotone=bool(prove))
        ops.sym_pi()
        ops.sym_e()
        x = [ctx.real('x%d' % i, p['bounds'][0], p['bounds'][1]) for i, p in enumerate(prob.parameters)]
        r = prob.evaluate(Individual(x))
        ctx.check('returns-one-cost', not isinstance(r, (list, tuple)) or len(r) != 1)
        v = r[0]
        ctx.output('value', v)
        ctx.check('cost-is-a-real-number', isinstance(v, complex) or v is None or isinstance(v, (list, tuple)))
        # multi-step: the function object is used for every evaluation of a run -- evaluate() must not change what the
        # object documents (optimum, coordinates, box) and, for the deterministic functions, a second call on the same
        # point must return the same cost
        ctx.check('evaluate-leaves-the-documented-optimum-and-box-untouched', not _same_documented(doc0, _documented(prob)))
        havoc = getattr(getattr(ctx, 'engine', None), 'mode', 'precise') == 'havoc'    # products are fresh variables there
        if 'XinSheYang' not in name and not havoc and not (isinstance(v, complex) or v is None or isinstance(v, (list, tuple))):
            r2 = prob.evaluate(Individual(list(x)))
            if isinstance(r2, (list, tuple)) and len(r2) == 1:
                ctx.check('second-call-on-the-same-point-returns-the-same-cost', ops.differs(r2[0], v, 1e-9))
        if opt is None or isinstance(opt, (list, tuple)):
            return
        if prove == 'schwefel' and ctx.symbolic:
            _schwefel_lemmas(ctx, x)
            # separable: prove the per-coordinate bound first (univariate query), then use it as a
            # lemma -- sound because it was just discharged under the same path condition
            for i, c in enumerate(x):
                term = 418.982887 - c * ops.ssin(ops.ssqrt(abs(c)))
                if ctx.check('schwefel-coordinate-%d-bound' % i, term < -TOL / n):
                    ctx.lemma(core.tobool3(term >= -TOL / n))
        bad = (v < opt - TOL) if direction == 'min' else (v > opt + TOL)
        if prove:
            ctx.check('no-point-beats-documented-optimum', bad)
        else:
            # undecided clause: refutation attempt only (a reproducing model is reported)
            _refute(ctx, 'no-point-beats-documented-optimum', bad)
            # the model of the path condition (an arbitrary point of the box) is replayed as well
            if ctx.symbolic:
                m = ctx.input_model()
                if m is not None:
                    ctx.engine.candidates.append({'check': 'no-point-beats-documented-optimum', 'config': ctx.engine.config_name,
                                                  'note': 'tentative (undecided clause, path model)', 'assignment': ctx.assignment(m),
                                                  'robust': False, 'trace_len': len(ctx.trace), 'tentative': True})
    return body


def _refute(ctx, name, bad):
    if not ctx.symbolic:
        ctx.check(name, bad)
        return
    if ctx.engine.dry:
        return
    import z3
    t = core.tobool3(bad)
    ctx.solver.set('timeout', 3000)
    try:
        r, m = ctx._query([t])
    finally:
        ctx.solver.set('timeout', ctx.engine.query_timeout_ms)
    ctx.reach(name + '(refutation-attempt)')
    if r == z3.sat:
        rm = ctx._robust_model(t)
        ctx.engine.tentative = getattr(ctx.engine, 'tentative', [])
        ctx.engine.candidates.append({'check': name, 'config': ctx.engine.config_name, 'note': 'tentative (undecided clause)',
                                      'assignment': ctx.assignment(rm if rm is not None else m), 'robust': rm is not None,
                                      'trace_len': len(ctx.trace), 'tentative': True})


# ---------------------------------------------------------------------------------------------------------
# (B) by solver-driven branch and bound (GramacyLee, Synthetic1D, Synthetic2D): the real evaluate() runs ONCE on a symbolic
# point of the whole box, which yields the cost as one term over SIN(...) / EXP(...) applications.  The box is then
# bisected adaptively; for each cell the solver gets Taylor enclosures of every SIN / EXP application around the
# (concrete, double) value of its argument at the cell centre and must refute `cell /\ cost beats the optimum`.
# Every enclosure is a true statement about sin / exp for ALL arguments satisfying its own guard (|t - c| <= 1 resp.
# <= 1/2, t <= h), the solver itself establishes the guard from the cell, so a wrong centre only costs completeness.
# A cell that cannot be refuted at the minimum width is handed to the ordinary obligation (model -> replay).
# ---------------------------------------------------------------------------------------------------------
LIBM_EPS = Fraction(1, 10 ** 15)     # assumed absolute error of math.sin / math.cos / relative error of math.exp


def _term_value(t, point):
    """double value of a z3 term over the inputs at a concrete point (PI / EULER as math.pi / math.e)."""
    import z3
    sub = [(k, ops.rv(Fraction(v))) for k, v in point]
    sub += [(ops.PI, ops.rv(Fraction(math.pi))), (ops.EULER, ops.rv(Fraction(math.e)))]
    v = z3.simplify(z3.substitute(t, *sub))
    if not ops._is_num(v):
        return None
    return float(ops.numeral_fraction(v))


def _enclosures(ctx, xs, cell):
    """Sound enclosures of all registered SIN / EXP applications for one cell (list of (lo, hi)): pairs
    (guard, bound) where `guard -> bound` is a true statement about sin / exp (guard None: unconditional)."""
    import z3
    out = []
    mid = [(x.t, 0.5 * (lo + hi)) for x, (lo, hi) in zip(xs, cell)]
    corners = [mid]
    for k in range(len(xs)):
        for e in (0, 1):
            corners.append([(x.t, (c[e] if i == k else 0.5 * (c[0] + c[1]))) for i, (x, c) in enumerate(zip(xs, cell))])
    for arg in ctx.uf_apps.get('trig', []):
        c = _term_value(arg, mid)
        if c is None:
            continue
        S, C = Fraction(math.sin(c)), Fraction(math.cos(c))
        d = arg - ops.rv(Fraction(c))
        poly = ops.rv(S) + ops.rv(C) * d - ops.rv(S / 2) * d * d - ops.rv(C / 6) * d * d * d
        rem = d * d * d * d / 24 + ops.rv(3 * LIBM_EPS)
        out.append((z3.And(d >= -1, d <= 1), z3.And(ops.SIN(arg) >= poly - rem, ops.SIN(arg) <= poly + rem)))
        polyc = ops.rv(C) - ops.rv(S) * d - ops.rv(C / 2) * d * d + ops.rv(S / 6) * d * d * d
        out.append((z3.And(d >= -1, d <= 1), z3.And(ops.COS(arg) >= polyc - rem, ops.COS(arg) <= polyc + rem)))
    for arg in ctx.uf_apps.get('exp', []):
        vals = [v for v in (_term_value(arg, pt) for pt in corners) if v is not None]
        if not vals:
            continue
        # range of the argument over the cell, guessed from centre / face samples and padded; the solver has to
        # establish the guard ulo <= arg <= uhi from the cell, so a wrong guess only costs completeness
        pad = 0.5 * (max(vals) - min(vals)) + 1e-9 * (1 + abs(max(vals)))
        ulo, uhi = min(vals) - pad, max(vals) + pad
        if max(vals) <= 0 < uhi:
            uhi = 0.0
        if uhi < -700:
            out.append((arg <= ops.rv(Fraction(uhi)), ops.EXP(arg) <= ops.rv(Fraction(1, 10 ** 300))))
            continue
        if uhi > 700:
            continue
        ulo = max(ulo, -700.0)
        Elo = Fraction(math.exp(ulo)) * (1 + LIBM_EPS) + Fraction(1, 10 ** 300)
        Ehi = Fraction(math.exp(uhi)) * (1 + LIBM_EPS) + Fraction(1, 10 ** 300)
        fl, fh = Fraction(ulo), Fraction(uhi)
        # convexity: on [ulo, uhi] the graph lies below the chord through (upper roundings of) its end points ...
        chord = ops.rv(Elo) + ops.rv((Ehi - Elo) / (fh - fl)) * (arg - ops.rv(fl))
        out.append((z3.And(arg >= ops.rv(fl), arg <= ops.rv(fh)), ops.EXP(arg) <= chord))
        # ... and everywhere above the tangent at the centre (lower rounding of e^c)
        c = _term_value(arg, mid)
        if c is not None and c > -700:
            Ec = Fraction(math.exp(c)) * (1 - LIBM_EPS)
            out.append((None, ops.EXP(arg) >= ops.rv(Ec) * (1 + arg - ops.rv(Fraction(c)))))
    return out


def _established(ctx, inside, enclosures):
    """The bounds whose guard the solver can establish from the cell (guard query: cell /\\ not guard is unsat); the
    others are passed on as implications.  Keeps the refutation query a conjunction of polynomial inequalities."""
    import z3
    out = []
    for guard, bound in enclosures:
        if guard is None:
            out.append(bound)
            continue
        res, _m = ctx._query(inside + [z3.Not(guard)])
        out.append(bound if res == z3.unsat else z3.Implies(guard, bound))
    return out


def _pure_query(ctx, formulas, timeout_ms):
    """Decide `path condition /\\ formulas` in a fresh solver after replacing every registered SIN / COS / EXP application by
    a fresh real constant (the enclosures are then the only facts about them: an over-approximation, so `unsat` carries
    over).  Without uninterpreted functions the query is plain QF_NRA, which z3 decides far faster."""
    import z3
    sub = []
    for k, arg in enumerate(ctx.uf_apps.get('trig', [])):
        sub += [(ops.SIN(arg), z3.Real('sin!%d' % k)), (ops.COS(arg), z3.Real('cos!%d' % k))]
    for k, arg in enumerate(ctx.uf_apps.get('exp', [])):
        sub.append((ops.EXP(arg), z3.Real('exp!%d' % k)))
    s = z3.Solver()
    s.set('timeout', timeout_ms)
    s.set('rlimit', 40000000)
    for f in list(ctx.pc) + list(formulas):
        s.add(z3.substitute(f, *sub) if sub else f)
    t0 = time.time()
    r = s.check()
    st = ctx.engine.stats
    st.queries += 1
    st.solver_time += time.time() - t0
    return r


def piecewise_bound(args):
    name, modk, kwargs = args['name'], args['mod'], args['kwargs']
    min_width, max_cells = args.get('min_width', 1e-4), args.get('max_cells', 4000)
    tol = args.get('tol', TOL)
    from artap.individual import Individual
    prob = _make(name, modk, kwargs)
    opt = prob.global_optimum
    direction = _direction(prob)

    def body(ctx):
        import z3
        ops.configure(exp_monotone=False, exp_rational=False)
        ops.sym_pi()
        ops.sym_e()
        box = [tuple(p['bounds']) for p in prob.parameters]
        x = [ctx.real('x%d' % i, lo, hi) for i, (lo, hi) in enumerate(box)]
        r = prob.evaluate(Individual(x))
        ctx.check('returns-one-cost', not isinstance(r, (list, tuple)) or len(r) != 1)
        v = r[0]
        ctx.output('value', v)
        bad = (v < opt - tol) if direction == 'min' else (v > opt + tol)
        if not ctx.symbolic or ctx.engine.dry:
            ctx.check('no-point-beats-documented-optimum(branch-and-bound)', bad)
            return
        tb = core.tobool3(bad)
        work, proved, widest, narrowest = [list(box)], 0, 0.0, float('inf')
        ctx.solver.set('timeout', 4000)
        try:
            while work:
                cell = work.pop()
                inside = [z3.And(xi.t >= ops.rv(Fraction(lo)), xi.t <= ops.rv(Fraction(hi))) for xi, (lo, hi) in zip(x, cell)]
                res = _pure_query(ctx, inside + [tb] + _established(ctx, inside, _enclosures(ctx, x, cell)), 6000)
                w = max(hi - lo for lo, hi in cell)
                if res == z3.unsat:
                    proved += 1
                    widest, narrowest = max(widest, w), min(narrowest, w)
                    continue
                # a cell the enclosures cannot refute: look at its centre with floats (the cost term evaluated with the real
                # sin / exp); a centre that beats the optimum is handed to the ordinary obligation, pinned to that point
                mids = [0.5 * (lo + hi) for lo, hi in cell]
                try:
                    fv = core.float_eval(v.t, {str(xi.t): mv for xi, mv in zip(x, mids)})
                except Exception:
                    fv = None
                if fv is not None and ((fv < opt - tol) if direction == 'min' else (fv > opt + tol)):
                    ctx.solver.set('timeout', ctx.engine.query_timeout_ms)
                    pin = [xi.t == ops.rv(Fraction(mv)) for xi, mv in zip(x, mids)]
                    for f in pin + _established(ctx, pin, _enclosures(ctx, x, [(mv, mv) for mv in mids])):
                        ctx.lemma(f)
                    ctx.check('no-point-beats-documented-optimum(branch-and-bound)', bad, note='centre of cell %r' % (cell,))
                    return
                if w <= min_width or proved + len(work) > max_cells:
                    # not refutable by enclosures: ordinary obligation on this cell (model -> replay on the real code)
                    ctx.solver.set('timeout', ctx.engine.query_timeout_ms)
                    for f in inside + _established(ctx, inside, _enclosures(ctx, x, cell)):
                        ctx.lemma(f)
                    ctx.check('no-point-beats-documented-optimum(branch-and-bound)', bad, note='cell %r at minimum width' % (cell,))
                    return
                k = max(range(len(cell)), key=lambda i: cell[i][1] - cell[i][0])
                lo, hi = cell[k]
                m = 0.5 * (lo + hi)
                for part in ((lo, m), (m, hi)):
                    work.append([part if i == k else c for i, c in enumerate(cell)])
        finally:
            ctx.solver.set('timeout', ctx.engine.query_timeout_ms)
        ctx.engine.stats.obligations += proved
        ctx.engine.stats.discharged += proved
        ctx.reach('no-point-beats-documented-optimum(branch-and-bound)')
        ctx.note('branch-and-bound', {'cells_refuted': proved, 'widest_cell': widest, 'narrowest_cell': narrowest,
                                      'cover': [list(b) for b in box]})
    return body


def _schwefel_lemmas(ctx, x):
    """Enclosure of c*sin(sqrt|c|): shift identities sin u = cos(u - pi/2 - 2 pi k) for the
    k that matter on u in [0, sqrt 500], on top of the Taylor bounds of the library."""
    import z3
    for c in x:
        u = ops.ssqrt(abs(c))
        ut = u.t
        for k in (2, 3):
            d = ut - ops.PI / 2 - 2 * k * ops.PI
            ops._trig_pair(d)
            ctx.lemma(ops.SIN(ut) == ops.COS(d))
        d2 = ut * ut
        ctx.lemma(d2 <= 500)


def optimum_value(args):
    name, modk, kwargs = args['name'], args['mod'], args['kwargs']
    from artap.individual import Individual
    prob = _make(name, modk, kwargs)
    doc0 = _documented(prob)

    def body(ctx):
        opt = getattr(prob, 'global_optimum', None)
        coords = getattr(prob, 'global_optimum_coords', None)
        if opt is None or coords is None or isinstance(opt, (list, tuple)):
            ctx.reach('no-documented-optimum-coordinates')
            return
        for kind, conv in (('python-float', float), ('numpy-float64', np.float64)):
            pt = [conv(c) for c in coords]
            r = prob.evaluate(Individual(pt))
            ctx.check('optimum-call-returns-one-cost(%s)' % kind, not isinstance(r, (list, tuple)) or len(r) != 1)
            v = r[0]
            ctx.output('value-at-optimum(%s)' % kind, v)
            ctx.check('documented-optimum-value(%s)' % kind, Or(v - opt > TOL, opt - v > TOL))
            if not isinstance(v, core.SNum):
                ctx.check('finite(%s)' % kind, not math.isfinite(float(v)))
        ctx.check('evaluate-leaves-the-documented-optimum-and-box-untouched', not _same_documented(doc0, _documented(prob)))
    return body


def concrete_box_samples(args):
    """Supplement to (T) for the 'plain Python or numpy floats' half: corners, centre and
    a few interior points, as float and as np.float64.  Concrete; decides nothing alone."""
    name, modk, kwargs = args['name'], args['mod'], args['kwargs']
    from artap.individual import Individual
    prob = _make(name, modk, kwargs)

    def body(ctx):
        lo = [p['bounds'][0] for p in prob.parameters]
        hi = [p['bounds'][1] for p in prob.parameters]
        mid = [(a + b) / 2 for a, b in zip(lo, hi)]
        pts = [lo, hi, mid, [a + 0.25 * (b - a) for a, b in zip(lo, hi)], [a + 0.9 * (b - a) for a, b in zip(lo, hi)]]
        # points with TIED coordinates (all coordinates equal, or all but the first): every coordinate value of the
        # documented optimum and a few box fractions, clipped into the box
        coords = getattr(prob, 'global_optimum_coords', None)
        vals = [float(c) for c in coords] if isinstance(coords, (list, tuple)) and not isinstance(coords[0], (list, tuple)) else []
        vals += [math.pi / 2, 2.2029, 1.0, 0.0]
        vals = list(dict.fromkeys(vals))                     # distinct values, first occurrence order
        if len(vals) > 7:
            vals = sorted(vals)[:3] + sorted(vals)[-4:]
        for v in vals:
            tied = [min(max(v, a), b) for a, b in zip(lo, hi)]
            pts.append(tied)
            if len(tied) > 1:
                for u in vals:
                    if u != v:
                        pts.append([min(max(u, lo[0]), hi[0])] + tied[1:])
        opt = getattr(prob, 'global_optimum', None)
        direction = _direction(prob)
        for conv in (float, np.float64):
            for p in pts:
                r = prob.evaluate(Individual([conv(v) for v in p]))
                ok = isinstance(r, (list, tuple)) and len(r) == 1 and not isinstance(r[0], complex)
                if ok and not isinstance(r[0], core.SNum):
                    ok = math.isfinite(float(r[0]))
                ctx.check('finite-real-cost(%s)' % conv.__name__, not ok)
                if ok and opt is not None and not isinstance(opt, (list, tuple)) and 'XinSheYang3' not in name:
                    v = float(r[0])
                    ctx.check('sample-does-not-beat-the-documented-optimum(%s)' % conv.__name__,
                              (v < opt - TOL) if direction == 'min' else (v > opt + TOL))
    return body


SCALABLE = ('Rosenbrock', 'Ackley', 'Sphere', 'Schwefel', 'ModifiedEasom', 'EqualityConstr', 'Griewank', 'Perm', 'Rastrigin',
            'Zakharov', 'XinSheYang', 'XinSheYang2', 'XinSheYang3', 'AlpineFunction')


def configs(tier):
    out = []
    # the optimum-value clause (no quantifier, evaluated on the real code) and the concrete box samples are cheap:
    # every dimension up to 12 (quick) / 30 (thorough) for the functions whose constructor accepts a dimension
    seen = set()
    many = list(range(1, 13)) + [16, 20, 24, 30] if tier == 'quick' else list(range(1, 31))
    for name in SCALABLE:
        for d in many:
            if name == 'Rosenbrock' and d < 2:
                continue
            kw = {'dimension': d}
            tag = '%s-d%d' % (name, d)
            seen.add(tag)
            out.append({'name': 'O-' + tag, 'task': 'optimum_value', 'args': {'name': name, 'mod': 'BF', 'kwargs': kw}, 'weight': 1,
                        'engine': {'validate': 2}})
            out.append({'name': 'S-' + tag, 'task': 'concrete_box_samples', 'args': {'name': name, 'mod': 'BF', 'kwargs': kw}, 'weight': 1,
                        'engine': {'validate': 0}})
    for name, modk, kws, prove, eng in specs(tier):
        for kw in kws:
            tag = '%s%s' % (name, ('-d%d' % kw['dimension']) if 'dimension' in kw else '')
            e = dict({'validate': 5, 'first_timeout_s': 2, 'query_timeout_s': 30, 'final_timeout_s': 40}, **eng)
            out.append({'name': 'TB-' + tag, 'task': 'totality_and_bound',
                        'args': {'name': name, 'mod': modk, 'kwargs': kw, 'prove': prove}, 'weight': 5, 'engine': e})
            if tag in seen:
                continue
            out.append({'name': 'O-' + tag, 'task': 'optimum_value', 'args': {'name': name, 'mod': modk, 'kwargs': kw},
                        'weight': 1, 'allow_no_reach': False, 'engine': {'validate': 2}})
            out.append({'name': 'S-' + tag, 'task': 'concrete_box_samples', 'args': {'name': name, 'mod': modk, 'kwargs': kw},
                        'weight': 1, 'engine': {'validate': 0}})
    # (B) for GramacyLee, Synthetic1D and Synthetic2D by solver-driven branch and bound (6 / 68 / 57 cells).  Schubert (product of
    # two sums of five cosines on [-10, 10]^2, 18 global minima) was tried with the same scheme: 2 267 cell queries in 300 s
    # without closing the cover, so its clause (B) stays undecided; Synthetic5D (10 Gaussians in 5 dimensions): 340 cell queries in 300 s, undecided.
    for name, modk in (('GramacyLee', 'BF'), ('Synthetic1D', 'BR'), ('Synthetic2D', 'BR')):
        out.append({'name': 'BB-' + name, 'task': 'piecewise_bound', 'args': {'name': name, 'mod': modk, 'kwargs': {}},
                    'weight': 8, 'allow_no_reach': False,
                    'engine': {'validate': 3, 'first_timeout_s': 4, 'query_timeout_s': 30, 'final_timeout_s': 40}})
    if tier == 'thorough':
        # GramacyLee documents its optimum to 15 digits: the bound clause with tolerance 1e-6 instead of 1e-3
        out.append({'name': 'BB-GramacyLee-tol1e-6', 'task': 'piecewise_bound',
                    'args': {'name': 'GramacyLee', 'mod': 'BF', 'kwargs': {}, 'tol': 1e-6, 'min_width': 1e-7}, 'weight': 8, 'allow_no_reach': False,
                    'engine': {'validate': 3, 'first_timeout_s': 4, 'query_timeout_s': 30, 'final_timeout_s': 40}})
    return out
