"""C15 -- single-objective benchmarks: total on their box, optimum where and as documented.

The real evaluate() of every BenchmarkFunction subclass of artap/benchmark_functions.py
(lines 164-988) and artap/benchmark_robust.py runs on a symbolic point of its declared
box.  Clauses:
  (T) totality      the call returns a one-element list without raising, for every point
                    of the box (proxies stand for plain Python floats: they expose no
                    NumPy-scalar methods, so e.g. `summa.any()` fails on them as on a float)
  (O) optimum value at the documented coordinates |f - f*| <= 1e-3.  This clause has no
                    quantifier; it is evaluated on the real code with Python floats and with
                    numpy.float64 coordinates (XinSheYang-3: its random draws are symbolic)
  (B) bound         no point of the box beats the documented optimum by more than 1e-3 in the
                    declared optimisation direction.  Decided by the solver with the lemma
                    library for the functions listed in DECIDED_B; for the others the clause
                    is reported as undecided (no delta-complete solver for transcendental
                    extrema is available) and a cheap refutation attempt is made: a solver
                    model that reproduces on the real code is still a violation.
"""
import math

import numpy as np

from symx import core, ops, stubs
from symx.ops import And, Or, Not
from . import common

PROPERTY = 'C15'
TOL = 1e-3

META = {
    'bounds': {'quick': 'concrete tied-coordinate samples with the bound clause; state preservation + second call on every function object; every function in dimensions 1..3 where the constructor accepts them (Michalewicz 2,5,10; fixed-dimension functions as declared)',
               'thorough': 'adds dimensions 4-6 for the polynomial / per-coordinate functions'},
    'stubs': ['numpy ufuncs on proxies (np.cos/sin/exp/sqrt/fabs/abs) -> uninterpreted functions + lemma library',
              'random.uniform (XinSheYang-3) -> fresh real in [0,1]',
              'x**20 (Michalewicz) -> uninterpreted monomial'],
    'assumptions': ['floats as reals; constants such as np.pi / np.e are the exact rational values of the doubles',
                    '(B) is proved with sound lemma instances (ranges, monotonicity, convexity, exp(t)<=1/(1-t), Taylor enclosures); '
                    'z3 (incl. its nlsat tactic) trusted'],
    'undecided': ['(B) for Michalewicz, GramacyLee, Schubert, Synthetic1D/2D (need branch-and-bound over transcendental terms); '
                  '(T) and (O) are still checked for them, and (B) is still attempted as a refutation query'],
}


def preload():
    common.preload_all()
    import artap.benchmark_functions  # noqa
    import artap.benchmark_robust  # noqa


def _classes():
    import artap.benchmark_functions as BF
    import artap.benchmark_robust as BR
    return BF, BR


# name -> (module attr, class name, list of kwargs, prove_B, engine overrides)
def specs(tier):
    dims = (1, 2, 3) if tier == 'quick' else (1, 2, 3, 4, 5)
    D = lambda ds: [{'dimension': d} for d in ds]
    S = []
    S.append(('Rosenbrock', 'BF', D([d for d in dims if d >= 2]), True, {'mode': 'havoc', 'square_abs': True}))
    S.append(('Ackley', 'BF', D(dims), True, {}))
    S.append(('Sphere', 'BF', D(dims), True, {'mode': 'havoc', 'square_abs': True}))
    S.append(('Schwefel', 'BF', D((1, 2, 3)), 'schwefel', {}))
    S.append(('ModifiedEasom', 'BF', D((1, 2, 3)), True, {}))
    S.append(('EqualityConstr', 'BF', D((1, 2, 3) if tier == 'quick' else (1, 2, 3, 4)), True, {}))
    S.append(('Griewank', 'BF', D((1, 2, 3)), True, {}))
    S.append(('Michaelwicz', 'BF', D((2, 5, 10)), False, {}))
    S.append(('Perm', 'BF', D((1, 2, 3)), True, {'mode': 'havoc', 'square_abs': True}))
    S.append(('Rastrigin', 'BF', D(dims), True, {}))
    S.append(('SixHump', 'BF', [{}], True, {}))
    S.append(('Schubert', 'BF', [{}], False, {}))
    S.append(('Zakharov', 'BF', D(dims), True, {'mode': 'havoc', 'square_abs': True}))
    S.append(('XinSheYang', 'BF', D((1, 2, 3)), True, {}))
    S.append(('XinSheYang2', 'BF', D((1, 2)), True, {}))
    S.append(('XinSheYang3', 'BF', D((1, 2, 3)), True, {}))
    S.append(('Booth', 'BF', [{}], True, {'mode': 'havoc', 'square_abs': True}))
    S.append(('GramacyLee', 'BF', [{}], False, {}))
    S.append(('AlpineFunction', 'BF', D(dims), True, {}))
    S.append(('Synthetic1D', 'BR', [{}], False, {}))
    S.append(('Synthetic2D', 'BR', [{}], False, {}))
    S.append(('Synthetic5D', 'BR', [{}], False, {}))
    S.append(('Synthetic10D', 'BR', [{}], False, {}))
    return S


def _make(name, modk, kwargs):
    BF, BR = _classes()
    stubs.install((BF, 'uniform', stubs.s_uniform), (BF, 'np', stubs.numpy_shim_light), (BF, 'float', ops.sfloat))
    cls = getattr(BF if modk == 'BF' else BR, name)
    def other_object(delta):
        # state that survives between uses: ANOTHER object of the same class (another dimension where the constructor
        # takes one) is created and used in the same process -- one before and one AFTER the object under test
        if 'XinSheYang' in name:
            return None
        try:
            from artap.individual import Individual
            o = cls(**dict(kwargs, dimension=max(1, kwargs['dimension'] + delta))) if 'dimension' in kwargs else cls(**kwargs)
            o.evaluate(Individual([0.5 * (p['bounds'][0] + p['bounds'][1]) for p in o.parameters]))
            return o
        except Exception:
            return None
    before = other_object(+1)
    prob = cls(**kwargs)
    prob._symx_keep_alive = (before, other_object(+3), other_object(-1))
    return prob


def _direction(prob):
    c = prob.costs[0].get('criteria', 'minimize')
    return 'max' if c == 'maximize' else 'min'


def _documented(prob):
    """What the function object documents about itself; evaluate() must leave it alone."""
    import copy
    return copy.deepcopy({'optimum': getattr(prob, 'global_optimum', None), 'coords': getattr(prob, 'global_optimum_coords', None),
                          'bounds': [list(p['bounds']) for p in prob.parameters], 'dimension': getattr(prob, 'dimension', None)})


def _same_documented(a, b):
    def eq(x, y):
        if isinstance(x, (list, tuple)) or isinstance(y, (list, tuple)):
            try:
                return len(x) == len(y) and all(eq(u, w) for u, w in zip(x, y))
            except TypeError:
                return False
        if isinstance(x, dict):
            return isinstance(y, dict) and x.keys() == y.keys() and all(eq(x[k], y[k]) for k in x)
        return bool(x == y)
    return eq(a, b)


def totality_and_bound(args):
    name, modk, kwargs, prove = args['name'], args['mod'], args['kwargs'], args['prove']
    from artap.individual import Individual
    prob = _make(name, modk, kwargs)
    doc0 = _documented(prob)
    n = len(prob.parameters)
    opt = getattr(prob, 'global_optimum', None)
    direction = _direction(prob)

    def body(ctx):
        ops.configure(taylor=(prove == 'schwefel'), taylor6=(prove == 'schwefel'), exp_monotone=bool(prove))
        ops.sym_pi()
        ops.sym_e()
        x = [ctx.real('x%d' % i, p['bounds'][0], p['bounds'][1]) for i, p in enumerate(prob.parameters)]
        r = prob.evaluate(Individual(x))
        ctx.check('returns-one-cost', not isinstance(r, (list, tuple)) or len(r) != 1)
        v = r[0]
        ctx.output('value', v)
        ctx.check('cost-is-a-real-number', isinstance(v, complex) or v is None or isinstance(v, (list, tuple)))
        # multi-step: the function object is used for every evaluation of a run -- evaluate() must not change what the
        # object documents (optimum, coordinates, box) and, for the deterministic functions, a second call on the same
        # point must return the same cost
        ctx.check('evaluate-leaves-the-documented-optimum-and-box-untouched', not _same_documented(doc0, _documented(prob)))
        havoc = getattr(getattr(ctx, 'engine', None), 'mode', 'precise') == 'havoc'    # products are fresh variables there
        if 'XinSheYang' not in name and not havoc and not (isinstance(v, complex) or v is None or isinstance(v, (list, tuple))):
            r2 = prob.evaluate(Individual(list(x)))
            if isinstance(r2, (list, tuple)) and len(r2) == 1:
                ctx.check('second-call-on-the-same-point-returns-the-same-cost', ops.differs(r2[0], v, 1e-9))
        if opt is None or isinstance(opt, (list, tuple)):
            return
        if prove == 'schwefel' and ctx.symbolic:
            _schwefel_lemmas(ctx, x)
            # separable: prove the per-coordinate bound first (univariate query), then use it as a
            # lemma -- sound because it was just discharged under the same path condition
            for i, c in enumerate(x):
                term = 418.982887 - c * ops.ssin(ops.ssqrt(abs(c)))
                if ctx.check('schwefel-coordinate-%d-bound' % i, term < -TOL / n):
                    ctx.lemma(core.tobool3(term >= -TOL / n))
        bad = (v < opt - TOL) if direction == 'min' else (v > opt + TOL)
        if prove:
            ctx.check('no-point-beats-documented-optimum', bad)
        else:
            # undecided clause: refutation attempt only (a reproducing model is reported)
            _refute(ctx, 'no-point-beats-documented-optimum', bad)
            # the model of the path condition (an arbitrary point of the box) is replayed as well
            if ctx.symbolic:
                m = ctx.input_model()
                if m is not None:
                    ctx.engine.candidates.append({'check': 'no-point-beats-documented-optimum', 'config': ctx.engine.config_name,
                                                  'note': 'tentative (undecided clause, path model)', 'assignment': ctx.assignment(m),
                                                  'robust': False, 'trace_len': len(ctx.trace), 'tentative': True})
    return body


def _refute(ctx, name, bad):
    if not ctx.symbolic:
        ctx.check(name, bad)
        return
    if ctx.engine.dry:
        return
    import z3
    t = core.tobool3(bad)
    ctx.solver.set('timeout', 3000)
    try:
        r, m = ctx._query([t])
    finally:
        ctx.solver.set('timeout', ctx.engine.query_timeout_ms)
    ctx.reach(name + '(refutation-attempt)')
    if r == z3.sat:
        rm = ctx._robust_model(t)
        ctx.engine.tentative = getattr(ctx.engine, 'tentative', [])
        ctx.engine.candidates.append({'check': name, 'config': ctx.engine.config_name, 'note': 'tentative (undecided clause)',
                                      'assignment': ctx.assignment(rm if rm is not None else m), 'robust': rm is not None,
                                      'trace_len': len(ctx.trace), 'tentative': True})


def _schwefel_lemmas(ctx, x):
    """Enclosure of c*sin(sqrt|c|): shift identities sin u = cos(u - pi/2 - 2 pi k) for the
    k that matter on u in [0, sqrt 500], on top of the Taylor bounds of the library."""
    import z3
    for c in x:
        u = ops.ssqrt(abs(c))
        ut = u.t
        for k in (2, 3):
            d = ut - ops.PI / 2 - 2 * k * ops.PI
            ops._trig_pair(d)
            ctx.lemma(ops.SIN(ut) == ops.COS(d))
        d2 = ut * ut
        ctx.lemma(d2 <= 500)


def optimum_value(args):
    name, modk, kwargs = args['name'], args['mod'], args['kwargs']
    from artap.individual import Individual
    prob = _make(name, modk, kwargs)
    doc0 = _documented(prob)

    def body(ctx):
        opt = getattr(prob, 'global_optimum', None)
        coords = getattr(prob, 'global_optimum_coords', None)
        if opt is None or coords is None or isinstance(opt, (list, tuple)):
            ctx.reach('no-documented-optimum-coordinates')
            return
        for kind, conv in (('python-float', float), ('numpy-float64', np.float64)):
            pt = [conv(c) for c in coords]
            r = prob.evaluate(Individual(pt))
            ctx.check('optimum-call-returns-one-cost(%s)' % kind, not isinstance(r, (list, tuple)) or len(r) != 1)
            v = r[0]
            ctx.output('value-at-optimum(%s)' % kind, v)
            ctx.check('documented-optimum-value(%s)' % kind, Or(v - opt > TOL, opt - v > TOL))
            if not isinstance(v, core.SNum):
                ctx.check('finite(%s)' % kind, not math.isfinite(float(v)))
        ctx.check('evaluate-leaves-the-documented-optimum-and-box-untouched', not _same_documented(doc0, _documented(prob)))
    return body


def concrete_box_samples(args):
    """Supplement to (T) for the 'plain Python or numpy floats' half: corners, centre and
    a few interior points, as float and as np.float64.  Concrete; decides nothing alone."""
    name, modk, kwargs = args['name'], args['mod'], args['kwargs']
    from artap.individual import Individual
    prob = _make(name, modk, kwargs)

    def body(ctx):
        lo = [p['bounds'][0] for p in prob.parameters]
        hi = [p['bounds'][1] for p in prob.parameters]
        mid = [(a + b) / 2 for a, b in zip(lo, hi)]
        pts = [lo, hi, mid, [a + 0.25 * (b - a) for a, b in zip(lo, hi)], [a + 0.9 * (b - a) for a, b in zip(lo, hi)]]
        # points with TIED coordinates (all coordinates equal, or all but the first): every coordinate value of the
        # documented optimum and a few box fractions, clipped into the box
        coords = getattr(prob, 'global_optimum_coords', None)
        vals = [float(c) for c in coords] if isinstance(coords, (list, tuple)) and not isinstance(coords[0], (list, tuple)) else []
        vals += [math.pi / 2, 2.2029, 1.0, 0.0]
        vals = list(dict.fromkeys(vals))                     # distinct values, first occurrence order
        if len(vals) > 7:
            vals = sorted(vals)[:3] + sorted(vals)[-4:]
        for v in vals:
            tied = [min(max(v, a), b) for a, b in zip(lo, hi)]
            pts.append(tied)
            if len(tied) > 1:
                for u in vals:
                    if u != v:
                        pts.append([min(max(u, lo[0]), hi[0])] + tied[1:])
        opt = getattr(prob, 'global_optimum', None)
        direction = _direction(prob)
        for conv in (float, np.float64):
            for p in pts:
                r = prob.evaluate(Individual([conv(v) for v in p]))
                ok = isinstance(r, (list, tuple)) and len(r) == 1 and not isinstance(r[0], complex)
                if ok and not isinstance(r[0], core.SNum):
                    ok = math.isfinite(float(r[0]))
                ctx.check('finite-real-cost(%s)' % conv.__name__, not ok)
                if ok and opt is not None and not isinstance(opt, (list, tuple)) and 'XinSheYang3' not in name:
                    v = float(r[0])
                    ctx.check('sample-does-not-beat-the-documented-optimum(%s)' % conv.__name__,
                              (v < opt - TOL) if direction == 'min' else (v > opt + TOL))
    return body


SCALABLE = ('Rosenbrock', 'Ackley', 'Sphere', 'Schwefel', 'ModifiedEasom', 'EqualityConstr', 'Griewank', 'Perm', 'Rastrigin',
            'Zakharov', 'XinSheYang', 'XinSheYang2', 'XinSheYang3', 'AlpineFunction')


def configs(tier):
    out = []
    # the optimum-value clause (no quantifier, evaluated on the real code) and the concrete box samples are cheap:
    # every dimension up to 12 (quick) / 30 (thorough) for the functions whose constructor accepts a dimension
    seen = set()
    many = list(range(1, 13)) + [16, 20, 24, 30] if tier == 'quick' else list(range(1, 31))
    for name in SCALABLE:
        for d in many:
            if name == 'Rosenbrock' and d < 2:
                continue
            kw = {'dimension': d}
            tag = '%s-d%d' % (name, d)
            seen.add(tag)
            out.append({'name': 'O-' + tag, 'task': 'optimum_value', 'args': {'name': name, 'mod': 'BF', 'kwargs': kw}, 'weight': 1,
                        'engine': {'validate': 2}})
            out.append({'name': 'S-' + tag, 'task': 'concrete_box_samples', 'args': {'name': name, 'mod': 'BF', 'kwargs': kw}, 'weight': 1,
                        'engine': {'validate': 0}})
    for name, modk, kws, prove, eng in specs(tier):
        for kw in kws:
            tag = '%s%s' % (name, ('-d%d' % kw['dimension']) if 'dimension' in kw else '')
            e = dict({'validate': 5, 'first_timeout_s': 2, 'query_timeout_s': 30, 'final_timeout_s': 40}, **eng)
            out.append({'name': 'TB-' + tag, 'task': 'totality_and_bound',
                        'args': {'name': name, 'mod': modk, 'kwargs': kw, 'prove': prove}, 'weight': 5, 'engine': e})
            if tag in seen:
                continue
            out.append({'name': 'O-' + tag, 'task': 'optimum_value', 'args': {'name': name, 'mod': modk, 'kwargs': kw},
                        'weight': 1, 'allow_no_reach': False, 'engine': {'validate': 2}})
            out.append({'name': 'S-' + tag, 'task': 'concrete_box_samples', 'args': {'name': name, 'mod': modk, 'kwargs': kw},
                        'weight': 1, 'engine': {'validate': 0}})
    return out
