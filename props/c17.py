"""C17 -- result queries and quality indicators are faithful views of the recorded data.

The real Results.* / Problem.population(s) / last_population methods run on a problem
whose recorded individuals carry solver-variable vectors and costs, symbolic generation
tags (concretised) and symbolic front numbers; quality_indicator.epsilon_add runs on
point sets of solver variables through NumPy object arrays.
"""
import math

from symx import core, ops, stubs
from symx.ops import And, Or, Not, Implies
from . import common, evalcommon as ec

PROPERTY = 'C17'

META = {
    'bounds': {'quick': 'concrete gd on reference fronts of 11-150 points; record-untouched re-check after every configuration; <=3 recorded individuals (dim 2, 2 objectives), tags in {-1,0,1,2} all combinations, front numbers in 1..2; '
                        'epsilon_add on <=2 x <=2 points in <=2 dimensions',
               'thorough': '<=4 recorded individuals; epsilon_add 3x2 / 2x3 points in 2-D, 2x2 in 3-D'},
    'stubs': [],
    'assumptions': ['floats as reals (only comparisons and one subtraction per coordinate in epsilon_add)',
                    'gd (generational distance): scipy.spatial.distance.cdist is C code and is replaced by its contract (matrix of Euclidean '
                    'distances) when the points are symbolic; the aggregation artap adds (nanmin over the reference axis, mean) runs for real on '
                    'object arrays; a concrete smoke run exercises the real cdist',
                    'CSV export and plotting outside'],
    'undecided': ['the Euclidean-distance kernel of generational distance itself (scipy C code, by contract)'],
}


def preload():
    common.preload_all()


def _same(a, b):
    return len(a) == len(b) and all(x is y for x, y in zip(a, b))


def results(args):
    n, crit, part = args['n'], tuple(args['criteria']), args['part']
    from artap.individual import Individual
    from artap.results import Results
    prob = ec.make_problem(2, crit, 0)
    o = len(crit)
    res = Results(prob)
    TAGS = [-1, 0, 1, 2]

    def body(ctx):
        ec.reset_problem(prob, ctx)
        inds = []
        for i in range(n):
            ind = Individual([ctx.real('v%d_%d' % (i, j)) for j in range(2)])
            ind.costs = [ctx.real('c%d_%d' % (i, k)) for k in range(o)]
            ind.population_id = TAGS[ctx.choice('tag%d' % i, len(TAGS))]
            ind.features['front_number'] = ctx.int('front%d' % i, 1, 2) if part == 'views' else 1
            inds.append(ind)
            prob.individuals.append(ind)
        tags = [i.population_id for i in inds]
        snap = [list(x.vector) + list(x.costs) for x in inds]
        ctx.output('tags', tags)
        maxtag = max(tags)
        lastpop = [x for x in inds if x.population_id == maxtag]
        if part == 'views':
            _views(ctx, res, prob, inds, n, o, maxtag, lastpop)
        elif part == 'optimum':
            _optimum(ctx, res, inds, o, crit)
        else:
            srt = True
            if part == 'gop':
                for s_ in (False, True):
                    pv, gv = res.goal_on_parameter('x1', 'f0', sorted=s_)
                    _pairs(ctx, 'goal-on-parameter', pv, gv, [(x.vector[1], x.costs[0]) for x in lastpop], s_)
            elif part == 'pog':
                for s_ in (False, True):
                    gv2, pv2 = res.parameter_on_goal('f%d' % (o - 1), 'x0', sorted=s_)
                    _pairs(ctx, 'parameter-on-goal', gv2, pv2, [(x.costs[o - 1], x.vector[0]) for x in lastpop], s_)
            elif part == 'pop':
                for s_ in (False, True):
                    a, b = res.parameter_on_parameter('x0', 'x1', sorted=s_)
                    _pairs(ctx, 'parameter-on-parameter', a, b, [(x.vector[0], x.vector[1]) for x in lastpop], s_)
            elif part == 'gop-tag1':
                # explicit generation tags, including 0 (falsy!) and the largest one
                for tag in (0, 1, 2):
                    tt = [x for x in inds if x.population_id == tag]
                    pv, gv = res.goal_on_parameter('x0', 'f0', population_id=tag, sorted=True)
                    _pairs(ctx, 'goal-on-parameter-tag%d' % tag, pv, gv, [(x.vector[0], x.costs[0]) for x in tt], True)
                    gv2, pv2 = res.parameter_on_goal('f0', 'x1', population_id=tag)
                    _pairs(ctx, 'parameter-on-goal-tag%d' % tag, gv2, pv2, [(x.costs[0], x.vector[1]) for x in tt], False)
                    a, b = res.parameter_on_parameter('x1', 'x0', population_id=tag)
                    _pairs(ctx, 'parameter-on-parameter-tag%d' % tag, a, b, [(x.vector[1], x.vector[0]) for x in tt], False)
        # multi-step: a query must not disturb what later queries return -- after everything above, population queries
        # still list the individuals of a tag in RECORDING order and every record still carries its own data
        ctx.check('queries-leave-the-record-untouched(default-population)', [x.id for x in res.population()] != [x.id for x in lastpop])
        for t in (0, 1, 2):
            ctx.check('queries-leave-the-record-untouched(population-by-tag-in-recording-order)',
                      [x.id for x in res.population(t)] != [x.id for x in inds if x.population_id == t])
        ctx.check('queries-leave-the-record-untouched(values)',
                  Or(*[_neq(list(x.vector) + list(x.costs), s0) for x, s0 in zip(inds, snap)]))
    return body


def _neq(a, b):
    """Lists differ by VALUE (length or some element)."""
    a, b = list(a), list(b)
    if len(a) != len(b):
        return True
    return Or(*[x != y for x, y in zip(a, b)]) if a else False


def _views(ctx, res, prob, inds, n, o, maxtag, lastpop):
    ctx.check('default-is-last-generation', [x.id for x in res.population()] != [x.id for x in lastpop])
    for t in (0, 1, 2):
        got = res.population(t)
        ctx.check('population-by-tag-in-recording-order', [x.id for x in got] != [x.id for x in inds if x.population_id == t])
    pops = prob.populations()
    ctx.check('populations-partition', sorted(x.id for lst in pops.values() for x in lst) != list(range(n)) or
              any(x.population_id != k for k, lst in pops.items() for x in lst))
    import itertools
    rows = res.table(transpose=False)
    ctx.check('table-row-count', len(rows) != n)

    def perm_match(got, exp_of):
        """got is a permutation BY VALUE of [exp_of(x) for x in inds] (order is not promised)."""
        if len(got) != n:
            return False
        return Or(*[And(*[Not(_neq(g, exp_of(inds[j]))) for g, j in zip(got, perm)]) for perm in itertools.permutations(range(n))])
    if len(rows) == n:
        ctx.check('table-row-pairs-own-vector-and-costs', Not(perm_match(rows, lambda x: x.vector + x.costs)))
    cols = res.table()
    ok_shape = len(cols) == 2 + o and all(len(c) == n for c in cols) and len(rows) == n
    ctx.check('table-transposed-shape', not ok_shape)
    if ok_shape:
        ctx.check('table-transposed', Not(perm_match([[cols[j][i] for j in range(2 + o)] for i in range(n)], lambda x: x.vector + x.costs)))
    ps = res.parameters()
    ctx.check('parameters-listing', True if len(ps) != n else Not(perm_match(ps, lambda x: x.vector)))
    cs = res.costs()
    ctx.check('costs-listing', True if (len(cs) != o or any(len(c) != n for c in cs))
              else Not(perm_match([[cs[k][i] for k in range(o)] for i in range(n)], lambda x: x.costs)))
    # index-based listings: [indices, values per goal / parameter] of one generation, recording order
    for tag, members in ((-1, lastpop), (1, [x for x in inds if x.population_id == 1])):
        kw = {} if tag == -1 else {'population_id': tag}
        g_all = res.goal_on_index(**kw)
        ctx.check('goal-on-index-all-goals', True if len(g_all) != 1 + o else Or(list(g_all[0]) != list(range(len(members))),
                                                                                 *[_neq(g_all[1 + k], [x.costs[k] for x in members]) for k in range(o)]))
        g_one = res.goal_on_index(name='f%d' % (o - 1), **kw)
        ctx.check('goal-on-index-named-goal', True if len(g_one) != 2 else Or(list(g_one[0]) != list(range(len(members))),
                                                                              _neq(g_one[1], [x.costs[o - 1] for x in members])))
        p_all = res.parameter_on_index(**kw)
        ctx.check('parameter-on-index-all-parameters', True if len(p_all) != 3 else Or(list(p_all[0]) != list(range(len(members))),
                                                                                       _neq(p_all[1], [x.vector[0] for x in members]),
                                                                                       _neq(p_all[2], [x.vector[1] for x in members])))
        p_one = res.parameter_on_index(name='x1', **kw)
        ctx.check('parameter-on-index-named-parameter', True if len(p_one) != 2 else _neq(p_one[1], [x.vector[1] for x in members]))
    # multi-step: a further individual is recorded after the first queries; the same Results object must show it
    from artap.individual import Individual as _Ind
    late = _Ind([ctx.real('late_v0'), ctx.real('late_v1')])
    late.costs = [ctx.real('late_c%d' % k) for k in range(o)]
    late.population_id = maxtag + 1
    late.features['front_number'] = 1
    prob.individuals.append(late)
    ctx.check('later-record-becomes-the-last-generation', [x.id for x in res.population()] != [late.id])
    ctx.check('later-record-appears-in-the-table', len(res.table(transpose=False)) != n + 1)
    ctx.check('later-record-appears-in-costs', any(len(c) != n + 1 for c in res.costs()))
    prob.individuals.pop()
    pi = res.pareto_individuals()
    want = [x for x in lastpop if _front1(x)]
    ctx.check('pareto-individuals', [x.id for x in pi] != [x.id for x in want])
    pf = res.pareto_front()
    if len(pf) != o or any(len(c) != len(want) for c in pf):
        ctx.check('pareto-front-costs', True)
    else:
        got = [[pf[k][i] for k in range(o)] for i in range(len(want))]
        ctx.check('pareto-front-costs', Not(Or(*[And(*[Not(_neq(g, want[j].costs)) for g, j in zip(got, perm)])
                                                 for perm in itertools.permutations(range(len(want)))])) if want else False)


def _b(ctx, v):
    return v


def _optimum(ctx, res, inds, o, crit):
    for k in range(o):
        opt = res.find_optimum('f%d' % k)
        ctx.check('optimum-is-recorded', not any(opt is x for x in inds))
        if crit[k] == 'maximize':
            ctx.check('optimum-maximal', Or(*[x.costs[k] > opt.costs[k] for x in inds]))
        else:
            ctx.check('optimum-minimal', Or(*[x.costs[k] < opt.costs[k] for x in inds]))
    opt0 = res.find_optimum()
    ctx.check('optimum-default-goal', Or(*[(x.costs[0] > opt0.costs[0]) if crit[0] == 'maximize' else (x.costs[0] < opt0.costs[0])
                                           for x in inds]))


def _front1(x):
    return bool(x.features['front_number'] == 1)


def _pairs(ctx, name, first, second, expected_pairs, srt):
    """The listing must be a permutation of the (first, second) pairs BY VALUE (tied values
    may legitimately swap objects), sorted by the first component when requested."""
    import itertools
    got = list(zip(first, second))
    if len(got) != len(expected_pairs) or len(first) != len(second):
        ctx.check(name + ('-sorted' if srt else '') + '-keeps-pairs', True)
        return
    if srt:
        perms = [And(*[And(g[0] == expected_pairs[j][0], g[1] == expected_pairs[j][1]) for g, j in zip(got, perm)])
                 for perm in itertools.permutations(range(len(got)))]
        ctx.check(name + '-sorted-keeps-pairs', Not(Or(*perms)) if perms else False)
        ctx.check(name + '-is-sorted', Or(*[first[i] > first[i + 1] for i in range(len(first) - 1)]))
    else:
        ctx.check(name + '-keeps-pairs-in-recording-order',
                  Or(*[Or(g[0] != e[0], g[1] != e[1]) for g, e in zip(got, expected_pairs)]) if got else False)


def eps_add(args):
    nr, nc, dim, mode = args['nr'], args['nc'], args['dim'], args.get('mode', 'free')
    import artap.quality_indicator as Q

    def body(ctx):
        ref = [[ctx.real('r%d_%d' % (i, d)) for d in range(dim)] for i in range(nr)]
        if mode == 'free':
            comp = [[ctx.real('c%d_%d' % (i, d)) for d in range(dim)] for i in range(nc)]
        elif mode == 'identical':
            comp = [list(p) for p in ref]
        else:
            dsh = ctx.real('shift', 0, None)
            comp = [[v + dsh for v in p] for p in ref]
        got = Q.epsilon_add([tuple(p) for p in ref], [tuple(p) for p in comp])
        ctx.output('eps', got)
        exp = ops.smax([0.0] + [ops.smin([ops.smax([c[d] - r[d] for d in range(dim)]) for c in comp]) for r in ref])
        ctx.check('epsilon-add-is-max-min-max', ops.differs(got, exp, 1e-12))
        ctx.check('epsilon-add-nonnegative', got < 0)
        if mode == 'identical':
            ctx.check('epsilon-add-zero-for-identical-sets', ops.differs(got, 0.0, 1e-12))
        if mode == 'shifted':
            ctx.check('epsilon-add-equals-shift', ops.differs(got, dsh, 1e-12))
    return body


def gd_aggregation(args):
    """Generational distance with scipy's cdist (C code) replaced by its CONTRACT (the matrix of
    Euclidean distances, sqrt uninterpreted with (sqrt t)^2 = t): what is decided is the part
    artap itself adds -- nearest reference point per computed point (np.nanmin over axis 0), mean
    over the computed points.  On floats (replay, validation) the real cdist runs."""
    nr, nc, dim = args['nr'], args['nc'], args['dim']
    import numpy as np
    import artap.quality_indicator as Q
    from scipy import spatial as real_spatial

    def s_cdist(a, b, metric='euclidean'):
        if not core.any_sym([list(p) for p in a]) and not core.any_sym([list(p) for p in b]):
            return real_spatial.distance.cdist(a, b, metric=metric)
        out = np.empty((len(a), len(b)), dtype=object)
        for i, p in enumerate(a):
            for j, q in enumerate(b):
                out[i, j] = ops.ssqrt(ops.Sum([(x - y) * (x - y) for x, y in zip(p, q)]))
        return out

    # everything that is not modelled is forwarded to the real scipy.spatial (on proxies that ends as 'unsupported',
    # i.e. inconclusive -- never as an AttributeError of the stub)
    _Dist = stubs.Shim(real_spatial.distance, cdist=s_cdist)
    _Spatial = stubs.Shim(real_spatial, distance=_Dist)
    stubs.install((Q, 'spatial', _Spatial))

    def body(ctx):
        ref = [[ctx.real('r%d_%d' % (i, d)) for d in range(dim)] for i in range(nr)]
        comp = [[ctx.real('c%d_%d' % (i, d)) for d in range(dim)] for i in range(nc)]
        g = Q.gd([tuple(p) for p in ref], [tuple(p) for p in comp])
        ctx.output('gd', g)
        dist = lambda p, q: ops.ssqrt(ops.Sum([(x - y) * (x - y) for x, y in zip(p, q)]))
        exp = ops.Sum([ops.smin([dist(r, c) for r in ref]) for c in comp]) / nc
        ctx.check('gd-is-mean-distance-to-nearest-reference-point', ops.differs(g, exp, 1e-9))
        ctx.check('gd-nonnegative', g < 0)
        allin = And(*[Or(*[And(*[x == y for x, y in zip(r, c)]) for r in ref]) for c in comp])
        ctx.check('gd-zero-when-every-computed-point-is-a-reference-point', And(allin, ops.differs(g, 0.0, 1e-12)))
        ctx.check('gd-zero-only-then', And(Not(allin), Not(ops.differs(g, 0.0, 0.0))))
    return body


def gd_smoke(args):
    """NOT a solver check: SciPy's cdist is C code.  Concrete availability run only."""
    import artap.quality_indicator as Q

    def body(ctx):
        ref = [(0.0, 1.0), (0.5, 0.5), (1.0, 0.0)]
        comp = [(0.0, 1.0), (1.0, 0.0)]
        ctx.check('gd-zero-on-reference-points', abs(float(Q.gd(ref, comp))) > 1e-12)
        comp2 = [(0.0, 2.0), (1.0, 0.0)]
        ctx.check('gd-mean-nearest-distance', abs(float(Q.gd(ref, comp2)) - 0.5) > 1e-12)
        # size thresholds (concrete as well): reference fronts of 11, 12, 40 and 150 points, few computed points
        for nref in (11, 12, 40, 150):
            front = [(i / (nref - 1.0), 1.0 - i / (nref - 1.0)) for i in range(nref)]
            sub = [front[1], front[nref // 2], front[-2]]
            ctx.check('gd-zero-on-a-subset-of-a-large-reference-front(%d)' % nref, abs(float(Q.gd(front, sub))) > 1e-12)
            off = [(x, y + 0.25) for x, y in sub] + [(2.0, 0.0)]
            exp = sum(min(math.hypot(cx - rx, cy - ry) for rx, ry in front) for cx, cy in off) / len(off)
            ctx.check('gd-mean-nearest-distance-large-reference-front(%d)' % nref, abs(float(Q.gd(front, off)) - exp) > 1e-9)
    return body


def configs(tier):
    out = []
    N = 3 if tier == 'quick' else 4
    for n in range(1, N + 1):
        for ci, crit in enumerate([('minimize', 'maximize'), ('maximize', None)]):
            for part in ('views', 'optimum', 'gop', 'pog', 'pop', 'gop-tag1'):
                if n == 4 and (ci == 1 or part in ('pop', 'gop-tag1')):
                    continue
                out.append({'name': 'results-n%d-crit%d-%s' % (n, ci, part), 'task': 'results',
                            'args': {'n': n, 'criteria': crit, 'part': part},
                            'weight': 10 ** n, 'split': 48 if n >= 3 else None, 'engine': {'validate': 20}})
    shapes = [(1, 1, 1), (1, 2, 2), (2, 1, 2), (2, 2, 1), (2, 2, 2)]
    if tier == 'thorough':
        shapes += [(3, 2, 2), (2, 3, 2), (2, 2, 3)]
    for nr, nc, dim in shapes:
        out.append({'name': 'epsadd-%dx%d-d%d' % (nr, nc, dim), 'task': 'eps_add', 'args': {'nr': nr, 'nc': nc, 'dim': dim},
                    'weight': 6 ** (nr * nc), 'split': 32 if nr * nc >= 4 else None, 'engine': {'validate': 30}})
    for mode in ('identical', 'shifted'):
        out.append({'name': 'epsadd-2x2-d2-%s' % mode, 'task': 'eps_add', 'args': {'nr': 2, 'nc': 2, 'dim': 2, 'mode': mode},
                    'weight': 50, 'engine': {'validate': 30}})
        out.append({'name': 'epsadd-3x3-d1-%s' % mode, 'task': 'eps_add', 'args': {'nr': 3, 'nc': 3, 'dim': 1, 'mode': mode},
                    'weight': 50, 'split': 32, 'engine': {'validate': 30}})
    out.append({'name': 'gd-smoke-concrete', 'task': 'gd_smoke', 'args': {}, 'weight': 1})
    for nr, nc, dim in ((1, 1, 1), (2, 1, 2), (1, 2, 2), (2, 2, 1)) if tier == 'quick' else ((1, 1, 1), (2, 1, 2), (1, 2, 2), (2, 2, 1), (2, 2, 2), (3, 2, 1), (2, 3, 1)):
        out.append({'name': 'gd-aggregation-%dx%d-d%d' % (nr, nc, dim), 'task': 'gd_aggregation', 'args': {'nr': nr, 'nc': nc, 'dim': dim},
                    'weight': 3 ** (nr * nc), 'engine': {'validate': 20, 'first_timeout_s': 3}})
    return out
