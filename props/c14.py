"""C14 -- robust (worst-case) and gradient evaluators compute what they promise, stably.

The real WorstCaseEvaluator / GradientEvaluator (artap/operators.py) run through
Algorithm.evaluate over several CONSECUTIVE batches (what the test-suite never does) with
an arbitrary objective (uninterpreted, Ackermann form), symbolic design vectors and
symbolic non-negative tolerances.
"""
from symx import core, ops, stubs
from symx.ops import And, Or, Not
from . import common, evalcommon as ec

PROPERTY = 'C14'

META = {
    'bounds': {'quick': 'one batch of 8/6/4 designs for 1/2/3 parameters; 5-8 parameters; resubmitted designs; ndarray design vectors dim 2; dim<=2, <=2 user objectives, 3 consecutive batches of <=2 designs (worst case), 2 batches (gradient)',
               'thorough': 'dim<=4, batches (2,2,2) and (1,2,1,1), <=2 transient failures; gradient dim<=4, 3 batches'},
    'stubs': ['Problem.evaluate -> uninterpreted function (Ackermann form) + call log',
              'np.zeros inside artap.operators -> object array (so that the gradient array can hold solver terms)'],
    'assumptions': ['floats as reals: x+tol, x+1e-4 and the quotient are exact; in doubles the forward difference carries rounding error',
                    "the evaluators' evaluate_scalar variants outside the claim"],
}


def preload():
    common.preload_all()


def _alg(prob, kind):
    from artap.algorithm import Algorithm, EvaluatorType
    return Algorithm(prob, evaluator_type=kind)


def _vec(ctx, args, v):
    """The design vector as a list or as a numpy array (object array of proxies / float array in replays)."""
    if args.get('container') == 'ndarray':
        import numpy as np
        return np.array(list(v), dtype=object if ctx.symbolic else float)
    return v


def worst_case(args):
    dim, o, sizes = args['dim'], args['o'], args['batches']
    from artap.individual import Individual
    from artap.algorithm import EvaluatorType
    prob = ec.make_problem(dim, tuple(['minimize', 'maximize'][:o]), 0, bounds=[(-1.0, 1.0)] * dim, tols=[0.1] * dim)
    base_costs = list(prob.costs)
    faults = args.get('faults', 0)
    if faults:
        import artap.utils as U
        stubs.install((U, 'random', stubs.s_random), (U, 'int', ops.sint))

    def body(ctx):
        ec.reset_problem(prob, ctx, faults=bool(faults), max_faults=faults)
        prob.h.fault_kinds = 3      # transient failures only
        # only the submitted designs may fail: a failing NEIGHBOUR evaluation is re-sampled by Job.evaluate and is
        # then no neighbour any more -- that interaction is outside the quantifier of C14 (no faults there)
        prob.h.fault_filter = lambda individual: len(individual.parents) == 0
        prob.costs = list(base_costs)
        tols = []
        alg = None
        if args.get('tol_after'):
            # the tolerances are (re-)declared AFTER the algorithm and its evaluator exist (a tolerance study re-using the
            # objects): the neighbours are displaced by the tolerance the problem declares when the batch is evaluated
            for p in prob.parameters:
                p['tol'] = 0.1
            alg = _alg(prob, EvaluatorType.WORST_CASE)
        for i, p in enumerate(prob.parameters):
            t = ctx.real('tol%d' % i, 0, None)          # tolerance 0 included (neighbours coincide with the design)
            p['tol'] = t
            tols.append(t)
        if alg is None:
            alg = _alg(prob, EvaluatorType.WORST_CASE)
        designs = []
        for t, maxsize in enumerate(sizes):
            size = 1 + ctx.choice('size_batch%d' % t, maxsize)      # every batch size 1..max is explored
            batch = [Individual(_vec(ctx, args, ec.sym_vector(ctx, 'b%d_d%d' % (t, j), prob))) for j in range(size)]
            orig = {id(d): list(d.vector) for d in batch}
            resub = []
            if args.get('resubmit') and t >= 1 and designs:
                # an elite design of an earlier generation is handed to the evaluator AGAIN, together with the new ones
                resub = [designs[0][0]]
                batch = batch + resub
            c0 = len(prob.h.ok_calls())
            f0 = prob.h.nfault
            alg.evaluate(batch)
            ncalls = len(prob.h.ok_calls()) - c0
            ctx.output('calls_batch%d' % t, ncalls)
            if resub:
                # the design itself is not evaluated again; its neighbours may be (re-processing them is not promised
                # either way), so only the bounds are checked
                ctx.check('successful-calls-with-a-resubmitted-design', ncalls < (1 + 2 * dim) * size or ncalls > (1 + 2 * dim) * size + 2 * dim)
            else:
                ctx.check('successful-calls-per-batch=(1+2n)*new-designs', ncalls != (1 + 2 * dim) * size)
            for d in batch:
                if any(d is r for r in resub):
                    continue
                # a design re-sampled after a transient failure legitimately has a new vector: the neighbours
                # must surround the vector that was finally evaluated and stored
                designs.append((d, list(d.vector) if prob.h.nfault > f0 else orig[id(d)]))
            for d, x in designs:
                ctx.check('cost-vector-length-stable', len(d.costs) != o + 1)
                ctx.check('signed-cost-vector-length-stable', len(d.costs_signed) != o + 2)
                ctx.check('2n-neighbours', len(d.children) != 2 * dim)
                if len(d.children) != 2 * dim or len(d.costs) < o + 1 or len(d.costs_signed) < 2:
                    continue
                k = 0
                for i in range(dim):
                    for sign in (-1, 1):
                        ch = d.children[k]
                        k += 1
                        exp = list(x)
                        exp[i] = exp[i] + sign * tols[i]
                        ctx.check('neighbour-displaced-by-tolerance', Not(ec.same_vec(ch.vector, exp)))
                        ctx.check('neighbour-evaluated', len(ch.costs) < 1)
                if any(len(ch.costs) < 1 for ch in d.children):
                    continue
                sens = ops.Sum([abs(d.costs[0] - ch.costs[0]) for ch in d.children])
                ctx.check('extra-objective-is-sum-of-abs-differences', ops.differs(d.costs[-1], sens, 1e-9))
                ctx.check('signed-extra-objective', ops.differs(d.costs_signed[-2], sens, 1e-9))
                ctx.check('feature-sensitivity', ops.differs(d.features.get('sensitivity'), sens, 1e-9))
                ctx.check('design-vector-unchanged', Not(ec.same_vec(d.vector, x)))
    return body


def gradient(args):
    dim, o, sizes = args['dim'], args['o'], args['batches']
    from artap.individual import Individual
    from artap.algorithm import EvaluatorType
    import artap.operators as O
    stubs.install((O, 'np', stubs.numpy_shim))
    prob = ec.make_problem(dim, tuple(['minimize', 'maximize'][:o]), 0, bounds=[(-1.0, 1.0)] * dim)
    base_costs = list(prob.costs)

    def body(ctx):
        ec.reset_problem(prob, ctx)
        prob.costs = list(base_costs)
        alg = _alg(prob, EvaluatorType.GRADIENT)
        delta = 1e-4
        for t, maxsize in enumerate(sizes):
            size = 1 + ctx.choice('size_batch%d' % t, maxsize)
            batch = [Individual(_vec(ctx, args, ec.sym_vector(ctx, 'b%d_d%d' % (t, j), prob))) for j in range(size)]
            orig = [list(d.vector) for d in batch]
            c0 = len(prob.h.calls)
            alg.evaluate(batch)
            ncalls = len(prob.h.calls) - c0
            ctx.output('calls_batch%d' % t, ncalls)
            ctx.check('n+1-evaluations-per-design', ncalls != (1 + dim) * size)
            ctx.check('work-lists-reset', len(alg.evaluator.individuals) != 0 or len(alg.evaluator.to_evaluate) != 0)
            for d, x in zip(batch, orig):
                g = d.features.get('gradient')
                ctx.check('gradient-stored', g is None or len(g) != dim)
                ctx.check('n-children', len(d.children) != dim)
                if g is None or len(g) != dim or len(d.children) != dim or len(d.costs) < 1:
                    continue
                for i in range(dim):
                    ch = d.children[i]
                    exp = list(x)
                    exp[i] = exp[i] + delta
                    ctx.check('forward-step-1e-4', Not(ec.same_vec(ch.vector, exp)))
                    if len(ch.costs) < 1:
                        ctx.check('child-evaluated', True)
                        continue
                    fd = (ch.costs[0] - d.costs[0]) / delta
                    ctx.check('gradient-is-forward-difference', ops.differs(g[i], fd, 1e-6))
                ctx.check('cost-vector-length', len(d.costs) != o)
                ctx.check('design-vector-unchanged', Not(ec.same_vec(list(d.vector), x)))
    return body


def configs(tier):
    out = []

    def wc(dim, o, batches, faults=0, container=None, resubmit=False):
        out.append({'name': 'worst-dim%d-o%d-%s%s%s%s' % (dim, o, 'x'.join(map(str, batches)), '-faults%d' % faults if faults else '',
                                                          '-' + container if container else '', '-resubmit' if resubmit else ''),
                    'task': 'worst_case', 'args': {'dim': dim, 'o': o, 'batches': batches, 'faults': faults, 'container': container,
                                                   'resubmit': resubmit},
                    'weight': sum(batches) * dim * (20 if faults else 1), 'split': 32 if faults else None, 'engine': {'validate': 10}})

    def gr(dim, o, batches, container=None):
        out.append({'name': 'grad-dim%d-o%d-%s%s' % (dim, o, 'x'.join(map(str, batches)), '-' + container if container else ''), 'task': 'gradient',
                    'args': {'dim': dim, 'o': o, 'batches': batches, 'container': container}, 'weight': sum(batches) * dim, 'engine': {'validate': 10}})
    wc(1, 1, (2, 2, 2))
    wc(2, 1, (2, 1, 2))
    wc(1, 2, (1, 2, 2))
    wc(2, 2, (2, 2))
    wc(1, 1, (2, 1), faults=1)
    gr(1, 1, (2, 2))
    gr(2, 1, (2, 2))
    gr(2, 2, (1, 2))
    wc(2, 1, (2, 1), container='ndarray')
    wc(1, 1, (1, 1, 1), resubmit=True)
    out.append({'name': 'worst-dim2-o1-2x1-tolerances-declared-after-construction', 'task': 'worst_case',
                'args': {'dim': 2, 'o': 1, 'batches': (2, 1), 'faults': 0, 'container': None, 'resubmit': False, 'tol_after': True},
                'weight': 6, 'engine': {'validate': 10}})
    wc(1, 1, (8,))              # size thresholds: larger batches (the evaluator's work list grows with batch size * (2n+1))
    wc(2, 1, (6, 2))
    wc(3, 2, (4,))
    gr(1, 1, (8,))
    gr(2, 1, (6,))
    wc(5, 1, (1, 1))            # size thresholds: more parameters (10 neighbours per design)
    wc(7, 2, (1,))
    gr(5, 1, (1, 1))
    gr(8, 1, (1,))
    wc(2, 2, (2, 1), resubmit=True)
    gr(2, 1, (2, 1), container='ndarray')
    if tier == 'thorough':
        wc(3, 1, (2, 2, 2))
        wc(2, 2, (1, 2, 1, 1))
        wc(3, 2, (1, 1, 1))
        wc(2, 1, (2, 2), faults=2)
        wc(3, 2, (2, 2, 2))
        wc(4, 1, (2, 1, 2))
        gr(3, 2, (2, 2, 2))
        gr(4, 1, (2, 2))
        gr(3, 1, (2, 2, 1))
        gr(2, 2, (2, 2, 2))
    return out
