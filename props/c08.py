"""C08 -- variation, sampling and search never leave the declared parameter box.

The real operators of artap/operators.py (SBX crossover, polynomial / uniform /
non-uniform mutation, clip), the samplers of artap/utils.py (gen_number, gen_vector), the
swarm turbulence operators and the value mapping of every design-of-experiment generator
run with a SYMBOLIC box (lb < ub: covers negative, tiny and huge ranges), parents anywhere
in the closed box (on the bounds, coincident, |x2-x1| around machine epsilon), every random
draw a fresh real in its contract range, symbolic probabilities / distribution indices /
iteration numbers.

Two kinds of configuration:
  *-box      containment of every returned coordinate.  The final clip is what establishes
             it, so nonlinear intermediate values are havoc-ed (sound over-approximation).
  *-domain   precise arithmetic for one coordinate: every pow() base is non-negative and
             every divisor non-zero on every feasible path, i.e. no complex number and no
             exception can reach clip().  A feasible domain error shows up as an uncaught
             exception candidate and is replayed.
The swarm position update is covered by C18 (position-* configurations); the whole-run
clause is obtained by composition with the C09 run skeletons (every vector handed to the
objective stems from a generator, crossover+mutation, position update+turbulence or a
retry re-roll; each source is covered here, in C06 and in C18).
"""
import math

import numpy as np

from symx import core, ops, stubs
from symx.ops import And, Or, Not, ite
from . import common, doecommon

PROPERTY = 'C08'

META = {
    'bounds': {'quick': 'SBX / PM / uniform / non-uniform mutation: dimension <=2 (box), 1 (domain); gen_number with default and explicit '
                        'precisions; RandomGenerator 2 designs x 2 parameters; DOE mappings: full factorial (<=3 factors), Plackett-Burman '
                        '(n in {3,5,11}), Box-Behnken (3,4), LHS (3 samples x 2), Halton (5 x 3), uniform grid (3 levels x 2)',
               'thorough': 'operators dimension <=3; DOE: PB n in 1..12, BB 3..5, LHS 4x2, Halton 20x4'},
    'stubs': ['random.random / random.uniform -> fresh reals in [0,1) / [a,b]', 'max / min inside artap.operators -> ite terms (semantics preserving)',
              'pow with non-integer exponent -> uninterpreted POW + sign/range/monotonicity lemmas (domain configurations); fresh value (box configurations)',
              'round(x) -> nearest integer (superset of half-even)', 'numpy RandomState (LHS) -> symbolic draws and permutations'],
    'assumptions': ['boxes lb <= ub including fixed parameters (lb == ub)', 'floats as reals: overflow of ub-lb, NaN inputs outside', 'integer / boolean parameters outside',
                    'SimpleMutator / SimpleCrossover / FireflyStep are not named by the property (SimpleMutator has its clip commented out)',
                    'whole-run clause by composition (assume-guarantee), not by symbolic execution of whole runs'],
}


def preload():
    common.preload_all()


def _install(ite_clip=True):
    import artap.operators as O
    asg = [(O, 'random', stubs.random_shim), (O, 'math', stubs.math_shim), (O, 'float', ops.sfloat)]
    if ite_clip:
        asg += [(O, 'max', ops.smax), (O, 'min', ops.smin)]
    stubs.install(*asg)
    return O


def _inbox(ctx, name, vec, box):
    ctx.check(name + '-dimension', len(vec) != len(box))
    for v, (lo, hi) in zip(vec, box):
        ctx.check(name + '-real-valued', isinstance(v, complex) or v is None)
        ctx.check(name + '-inside-box', Or(v < lo, v > hi))


def _parent(ctx, name, box):
    return [ctx.real('%s%d' % (name, i), lo, hi) for i, (lo, hi) in enumerate(box)]


def sbx(args):
    dim = args['dim']
    O = _install()

    def body(ctx):
        params, box = doecommon.sym_parameters(ctx, dim, strict=False)
        prob = ctx.real('prob', 0, 1)
        eta = ctx.real('eta', 0, None)
        op = O.SimulatedBinaryCrossover(params, 0.5, 15)
        op.probability, op.distribution_index = prob, eta
        p1, p2 = _parent(ctx, 'p', box), _parent(ctx, 'q', box)
        c1, c2 = op.cross(list(p1), list(p2))
        ctx.output('c1', list(c1))
        ctx.output('c2', list(c2))
        _inbox(ctx, 'sbx-child1', c1, box)
        _inbox(ctx, 'sbx-child2', c2, box)
    return body


def pm(args):
    dim = args['dim']
    O = _install()

    def body(ctx):
        params, box = doecommon.sym_parameters(ctx, dim, strict=False)
        op = O.PmMutator(params, 0.5, 20)
        op.probability, op.distribution_index = ctx.real('prob', 0, 1), ctx.real('eta', 0, None)
        p = _parent(ctx, 'p', box)
        c = op.mutate(list(p))
        ctx.output('child', list(c))
        _inbox(ctx, 'pm-child', c, box)
    return body


def uniform_mut(args):
    dim = args['dim']
    O = _install()

    def body(ctx):
        params, box = doecommon.sym_parameters(ctx, dim, strict=False)
        op = O.UniformMutator(params, 0.5, 0.5)
        op.probability, op.perturbation = ctx.real('prob', 0, 1), ctx.real('pert')
        p = _parent(ctx, 'p', box)
        c = op.mutate(list(p))
        ctx.output('child', list(c))
        _inbox(ctx, 'uniform-child', c, box)
    return body


def nonuniform_mut(args):
    dim, maxit = args['dim'], args['maxit']
    O = _install()

    def body(ctx):
        params, box = doecommon.sym_parameters(ctx, dim, strict=False)
        op = O.NonUniformMutation(params, 0.5, maxit)
        op.probability = ctx.real('prob', 0, 1)
        op.perturbation = ctx.real('pert', 0, None)
        it = ctx.real('iteration', 0, maxit)
        p = _parent(ctx, 'p', box)
        c = op.mutate(list(p), it)
        ctx.output('child', list(c))
        _inbox(ctx, 'nonuniform-child', c, box)
    return body


def clip(args):
    O = _install(ite_clip=False)

    def body(ctx):
        lo, hi, v = ctx.real('lo'), ctx.real('hi'), ctx.real('v')
        ctx.assume(lo <= hi)
        r = O.Operator.clip(v, lo, hi)
        ctx.output('r', r)
        ctx.check('clip-inside', Or(r < lo, r > hi))
        ctx.check('clip-identity-inside', And(v >= lo, v <= hi, ops.differs(r, v, 0)))
        ctx.check('clip-saturates', Or(And(v < lo, ops.differs(r, lo, 0)), And(v > hi, ops.differs(r, hi, 0))))
    return body


def turbulence(args):
    kind, npart = args['kind'], args['npart']
    O = _install()
    import artap.algorithm_swarm as SW
    from . import evalcommon as ec
    stubs.install((SW, 'uniform', stubs.s_uniform))
    prob = ec.make_problem(1, ('minimize',), 0)
    alg = (SW.OMOPSO if kind == 'omopso' else SW.SMPSO)(prob)

    def body(ctx):
        from artap.individual import Individual
        Individual.counter = 0
        params, box = doecommon.sym_parameters(ctx, 1, strict=False)
        prob.parameters[0]['bounds'] = params[0]['bounds']
        if kind == 'omopso':
            alg.non_uniform_mutator = O.NonUniformMutation(prob.parameters, ctx.real('prob', 0, 1), 10)
            alg.uniform_mutator = O.UniformMutator(prob.parameters, ctx.real('prob2', 0, 1), 10)
        else:
            alg.mutator = O.PmMutator(prob.parameters, ctx.real('prob', 0, 1))
        parts = [SW.IndividualSwarm(_parent(ctx, 'p%d_' % j, box)) for j in range(npart)]
        alg.turbulence(parts, ctx.int('step', 0, 10))
        for j, p in enumerate(parts):
            ctx.output('p%d' % j, list(p.vector))
            _inbox(ctx, 'turbulence-particle', p.vector, box)
    return body


def gen_number(args):
    precision = args['precision']
    doecommon.install()
    import artap.utils as U

    def body(ctx):
        lo, hi = ctx.real('lb'), ctx.real('ub')
        ctx.assume(lo <= hi)
        if precision is None:
            r = U.VectorAndNumbers.gen_number(bounds=[lo, hi])
            p = 1e-12
        else:
            r = U.VectorAndNumbers.gen_number(bounds=[lo, hi], precision=precision)
            p = precision
        ctx.output('number', r)
        ctx.check('gen-number-within-half-precision-of-box', Or(r < lo - p / 2, r > hi + p / 2))
    return body


def gen_vector(args):
    n, number = args['n'], args['number']
    doecommon.install()
    import artap.operators as O

    def body(ctx):
        params, box = doecommon.sym_parameters(ctx, n, strict=False)
        if args.get('precision'):
            params[0]['precision'] = args['precision']      # only the FIRST parameter declares a precision
        g = O.RandomGenerator(params)
        g.init(number)
        vecs = g.generate()
        ctx.output('vectors', [list(v) for v in vecs])
        ctx.check('random-generator-count', len(vecs) != number)
        for v in vecs:
            ctx.check('random-generator-dimension', len(v) != n)
            for i, (x, (lo, hi)) in enumerate(zip(v, box)):
                p = params[i].get('precision', 1e-12)
                ctx.check('random-design-inside-box-up-to-precision', Or(x < lo - p / 2, x > hi + p / 2))
    return body


def doe_mapping(args):
    kind, n = args['kind'], args['n']
    DOE = doecommon.install()
    if kind == 'lhs':
        doecommon.install_lhs_random()
    import artap.operators as O

    def body(ctx):
        params, box = doecommon.sym_parameters(ctx, n, strict=False)
        if kind == 'fullfact':
            g = O.FullFactorGenerator(params)
            g.init(args.get('center', False))
        elif kind == 'pb':
            g = O.PlackettBurmanGenerator(params)
        elif kind == 'bb':
            g = O.BoxBehnkenGenerator(params)
        elif kind == 'lhs':
            g = O.LHSGenerator(params)
            g.init(args['samples'])
        elif kind == 'halton':
            g = O.HaltonGenerator(params)
            g.init(args['samples'])
        elif kind == 'uniform':
            g = O.UniformGenerator(params)
            g.init(args['levels'])
        rows = g.generate()
        ctx.output('nrows', len(rows))
        ctx.check('doe-nonempty', len(rows) == 0)
        for r in rows:
            ctx.check('doe-dimension', len(r) != n)
        tol = 1e-12
        bad = [Or(v < lo - tol / 2, v > hi + tol / 2) for r in rows for v, (lo, hi) in zip(r, box)]
        ctx.check('doe-design-inside-box', Or(*bad))
    return body


from .xhair import crosshair  # noqa: E402  (second opinion, thorough tier)


def run_containment(args):
    """Whole real runs (concrete objective, seeded randomness, solver-placed transient failure): every
    vector handed to the objective lies in the box.  Composition glue, not a proof over seeds; the
    per-source guarantees are the operator / generator / position-update obligations."""
    from . import c09
    return c09.skeleton(dict(args, only_containment=True))


def configs(tier):
    out = []
    Q = tier == 'quick'
    for algo in ('nsga2', 'epsmoea', 'omopso', 'smpso', 'psoga'):
        out.append({'name': 'run-containment-%s' % algo, 'task': 'run_containment',
                    'args': {'algo': algo, 'N': 3 if Q else 4, 'G': 2 if Q else 3, 'max_faults': 1}, 'weight': 10,
                    'engine': {'validate': 0, 'path_timeout_s': 120}})
    box_eng = {'mode': 'havoc', 'domain_checks': False, 'validate': 30}
    dom_eng = {'validate': 20, 'first_timeout_s': 3}
    for dim in ((1, 2) if Q else (1, 2, 3)):
        out.append({'name': 'sbx-box-d%d' % dim, 'task': 'sbx', 'args': {'dim': dim}, 'weight': 150 ** dim,
                    'split': 64 if dim >= 2 else None, 'engine': box_eng})
        out.append({'name': 'pm-box-d%d' % dim, 'task': 'pm', 'args': {'dim': dim}, 'weight': 4 ** dim, 'engine': box_eng})
        out.append({'name': 'uniform-box-d%d' % dim, 'task': 'uniform_mut', 'args': {'dim': dim}, 'weight': 2 ** dim, 'engine': box_eng})
        out.append({'name': 'nonuniform-box-d%d' % dim, 'task': 'nonuniform_mut', 'args': {'dim': dim, 'maxit': 10}, 'weight': 3 ** dim,
                    'engine': box_eng})
    out.append({'name': 'sbx-domain-d1', 'task': 'sbx', 'args': {'dim': 1}, 'weight': 400, 'split': 24, 'engine': dom_eng})
    out.append({'name': 'pm-domain-d1', 'task': 'pm', 'args': {'dim': 1}, 'weight': 50, 'engine': dom_eng})
    out.append({'name': 'nonuniform-domain-d1', 'task': 'nonuniform_mut', 'args': {'dim': 1, 'maxit': 7}, 'weight': 50, 'engine': dom_eng})
    out.append({'name': 'uniform-domain-d1', 'task': 'uniform_mut', 'args': {'dim': 1}, 'weight': 5, 'engine': dom_eng})
    out.append({'name': 'clip', 'task': 'clip', 'args': {}, 'weight': 1})
    for kind in ('omopso', 'smpso'):
        out.append({'name': 'turbulence-%s' % kind, 'task': 'turbulence', 'args': {'kind': kind, 'npart': 2 if Q else 4},
                    'weight': 30, 'split': 32, 'engine': box_eng})
    for prec in (None, 1e-3, 0.25, 0.5, 5.0, 0.02):     # incl. precisions that are not powers of ten
        out.append({'name': 'gen-number-prec-%s' % prec, 'task': 'gen_number', 'args': {'precision': prec}, 'weight': 2,
                    'engine': {'validate': 20}})
    out.append({'name': 'random-generator-2x2', 'task': 'gen_vector', 'args': {'n': 2, 'number': 2}, 'weight': 5, 'engine': {'validate': 10}})
    out.append({'name': 'random-generator-precision', 'task': 'gen_vector', 'args': {'n': 2, 'number': 1, 'precision': 0.01}, 'weight': 5,
                'engine': {'validate': 10}})
    out.append({'name': 'random-generator-coarse-precision-on-first-parameter-only', 'task': 'gen_vector',
                'args': {'n': 3, 'number': 1, 'precision': 1.0}, 'weight': 5, 'engine': {'validate': 10}})
    ve = {'validate': 5}
    for n, center in ((1, False), (2, True), (3, False), (3, True)):
        out.append({'name': 'doe-fullfact-n%d%s' % (n, '-center' if center else ''), 'task': 'doe_mapping',
                    'args': {'kind': 'fullfact', 'n': n, 'center': center}, 'weight': 2, 'engine': ve})
    for n in ((3, 5, 11) if Q else range(1, 13)):
        out.append({'name': 'doe-pb-n%d' % n, 'task': 'doe_mapping', 'args': {'kind': 'pb', 'n': n}, 'weight': 2, 'engine': ve})
    for n in ((3, 4) if Q else (3, 4, 5)):
        out.append({'name': 'doe-bb-n%d' % n, 'task': 'doe_mapping', 'args': {'kind': 'bb', 'n': n}, 'weight': 2 ** n, 'engine': ve})
    out.append({'name': 'doe-lhs-3x2', 'task': 'doe_mapping', 'args': {'kind': 'lhs', 'n': 2, 'samples': 3}, 'weight': 36, 'engine': ve})
    if not Q:
        out.append({'name': 'doe-lhs-4x2', 'task': 'doe_mapping', 'args': {'kind': 'lhs', 'n': 2, 'samples': 4}, 'weight': 600, 'split': 64,
                    'engine': ve})
    out.append({'name': 'doe-halton', 'task': 'doe_mapping', 'args': {'kind': 'halton', 'n': 3 if Q else 4, 'samples': 5 if Q else 20},
                'weight': 3, 'engine': ve})
    out.append({'name': 'doe-uniform-grid', 'task': 'doe_mapping', 'args': {'kind': 'uniform', 'n': 2, 'levels': 3}, 'weight': 3, 'engine': ve})
    if tier == 'thorough':
        out.append({'name': 'crosshair-second-opinion', 'task': 'crosshair', 'args': {'functions': ['clip_inside']}, 'weight': 1000,
                    'engine': {'validate': 0, 'path_timeout_s': 900}})
    return out
