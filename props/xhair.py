"""CrossHair 0.0.110 as an independent second opinion (thorough tier only): PEP 316 twins in
/verif/xhair/twins.py call the real artap code.  "Confirmed over all paths" is recorded; "Not
confirmed" is recorded and decides nothing; a counterexample is a candidate violation (it is
re-derived on replay)."""
import os
import re
import subprocess
import sys

VERIF = os.path.dirname(os.path.dirname(os.path.abspath(__file__)))


def _line_of(fn):
    src = open(os.path.join(VERIF, 'xhair', 'twins.py')).read().splitlines()
    for i, l in enumerate(src):
        if l.startswith('def %s(' % fn):
            return i + 2
    raise KeyError(fn)


def crosshair(args):
    fns, timeout = args['functions'], args.get('timeout', 40)

    def body(ctx):
        eng = getattr(ctx, 'engine', None)
        if eng is not None and eng.dry:
            return
        results = {}
        for fn in fns:
            cmd = [sys.executable, '-m', 'crosshair', 'check', '--report_all', '--per_condition_timeout', str(timeout),
                   '%s:%d' % (os.path.join(VERIF, 'xhair', 'twins.py'), _line_of(fn))]
            env = dict(os.environ, PYTHONWARNINGS='ignore')
            try:
                r = subprocess.run(cmd, capture_output=True, text=True, timeout=timeout * 4 + 60, env=env, cwd=VERIF)
                out = r.stdout + r.stderr
            except subprocess.TimeoutExpired:
                out = 'timeout'
            if 'Confirmed over all paths' in out:
                results[fn] = 'confirmed-over-all-paths'
            elif re.search(r'error:', out):
                results[fn] = 'counterexample: ' + ' '.join(l for l in out.splitlines() if 'error:' in l)[:300]
            else:
                results[fn] = 'not-confirmed (inconclusive, decides nothing)'
            ctx.check('crosshair-counterexample:%s' % fn, results[fn].startswith('counterexample'), note=results[fn])
        ctx.note('cross_engine_crosshair', sorted(results.items()))
    return body
