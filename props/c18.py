"""C18 -- swarm: personal best never regresses, velocity clamped, leader set bounded.

One step of each real helper of artap/algorithm_swarm.py from an ARBITRARY state:
update_particle_best, speed_constriction, khi, update_velocity (SwarmAlgorithm and the
PSOGA override), update_position (OMOPSO, SMPSO, PSOGA) and update_global_best (leader
archive add + truncate by crowding distance).
"""
import math

from symx import core, ops, stubs
from symx.ops import And, Or, Not, Implies, Iff, ite
from . import common, evalcommon as ec
from .common import dominates

PROPERTY = 'C18'

META = {
    'bounds': {'quick': 'personal best with 4-5 objectives; position updates in 5 dimensions; more leaders than the population size; two particles sharing one personal-best record; particles of dimension <=2, m<=2 objectives; leader archives of <=2 members and swarms of <=2 (global best), population size N in {1,2}',
               'thorough': 'dimension <=3; leader archive <=3, swarm <=3, N in {2,3}'},
    'stubs': ['random.uniform (module global of artap.algorithm_swarm) -> fresh real in its range',
              'round(x, 1) -> ROUND1(x): multiple of 0.1 within 0.05 of x',
              'random.choice / random.sample (module globals of artap.archive) -> symbolic indices',
              'comparators through summaries'],
    'assumptions': ['floats as reals; products in update_velocity are havoc-ed (any real) in the clamp check, which only relies on the final speed_constriction',
                    'sequences of generations are covered only through the one-step (inductive) form',
                    'leader archive uses its default epsilon comparator ([0.1, 0.1]); "mutually non-dominated" is checked with the textbook relation'],
}


def preload():
    common.preload_all()


def _problem(dim, m):
    return ec.make_problem(dim, tuple(['minimize'] * m), 0, bounds=[(-1.0, 2.0)] * dim)


def _install():
    import artap.algorithm_swarm as SW
    import artap.archive as AR
    stubs.install((SW, 'uniform', stubs.s_uniform), (AR, 'choice', stubs.s_choice), (AR, 'sample', stubs.s_sample))
    return SW


def _algo(SW, kind, prob):
    cls = {'omopso': SW.OMOPSO, 'smpso': SW.SMPSO, 'psoga': SW.PSOGA}[kind]
    return cls(prob)


def _sym_box(ctx, prob):
    box = []
    for i, p in enumerate(prob.parameters):
        lo, hi = ctx.real('lb%d' % i), ctx.real('ub%d' % i)
        ctx.assume(lo <= hi)
        p['bounds'] = [lo, hi]
        box.append((lo, hi))
    return box


def particle_best(args):
    m, kind = args['m'], args['kind']
    SW = _install()
    st = common.install_comparator_summaries([m + 1])
    prob = _problem(2, m)
    alg = _algo(SW, kind, prob)

    def body(ctx):
        from artap.individual import Individual
        Individual.counter = 0
        p = SW.IndividualSwarm([ctx.real('x0'), ctx.real('x1')])
        new = common.sym_costs(ctx, 'new', m, 'bool')
        old = common.sym_costs(ctx, 'old', m, 'bool')
        oldv = [ctx.real('bx0'), ctx.real('bx1')]
        p.costs_signed = new
        p.features['best_cost'] = old
        p.features['best_vector'] = oldv
        alg.update_particle_best([p])
        bc, bv = p.features['best_cost'], p.features['best_vector']
        ctx.output('best_is_new_object', bc is new)
        same = lambda a, b: ec.same_vec(list(a), list(b)) if (a is not None and b is not None and len(a) == len(b)) else False
        old_dominates_new = dominates(old, new)
        # by VALUE (a copying implementation is fine): replaced unless the old best dominates the new position
        ctx.check('replaced-unless-old-best-dominates-new', And(Not(old_dominates_new), Not(same(bc, new))))
        ctx.check('kept-when-old-best-dominates-new', And(old_dominates_new, Not(same(bc, old))))
        ctx.check('never-replaced-by-a-dominated-position', And(old_dominates_new, same(bc, new), Not(same(new, old))))
        ctx.check('best-vector-follows-best-cost',
                  Or(And(Not(old_dominates_new), Not(same(bv, p.vector))), And(old_dominates_new, Not(same(bv, oldv)))))
    return common.merge_stats(body, st)


def particle_best_shared(args):
    """Two particles of one population share ONE personal-best record (the same features dict): PSOGA creates exactly
    that every generation (`offspring.features = selected.features`).  The rule of the property applies to each particle
    in turn against the best AS IT IS THEN: best1 = old unless old does not dominate A; final = best1 unless best1 does not
    dominate B."""
    m, kind = args['m'], args['kind']
    SW = _install()
    st = common.install_comparator_summaries([m + 1])
    prob = _problem(2, m)
    alg = _algo(SW, kind, prob)

    def body(ctx):
        from artap.individual import Individual
        Individual.counter = 0
        pa = SW.IndividualSwarm([ctx.real('ax0'), ctx.real('ax1')])
        pb = SW.IndividualSwarm([ctx.real('bx0'), ctx.real('bx1')])
        A = common.sym_costs(ctx, 'a', m, 'bool')
        B = common.sym_costs(ctx, 'b', m, 'bool')
        old = common.sym_costs(ctx, 'old', m, 'bool')
        pa.costs_signed, pb.costs_signed = A, B
        pa.features['best_cost'] = old
        pa.features['best_vector'] = [ctx.real('ox0'), ctx.real('ox1')]
        pb.features = pa.features
        alg.update_particle_best([pa, pb])
        bc = pa.features['best_cost']
        ctx.check('record-still-shared', pb.features is not pa.features)
        same = lambda a, b: ec.same_vec(list(a), list(b)) if (a is not None and b is not None and len(a) == len(b)) else False
        dOA, dOB, dAB = dominates(old, A), dominates(old, B), dominates(A, B)
        ctx.check('shared-record-updated-particle-by-particle',
                  Or(And(Not(dOA), Not(dAB), Not(same(bc, B))), And(Not(dOA), dAB, Not(same(bc, A))),
                     And(dOA, Not(dOB), Not(same(bc, B))), And(dOA, dOB, Not(same(bc, old)))))
        ctx.check('shared-record-never-replaced-by-a-position-it-dominates',
                  And(Not(dOA), dAB, same(bc, B), Not(same(A, B))))
    return common.merge_stats(body, st)


def constriction(args):
    SW = _install()

    def body(ctx):
        v = ctx.real('v')
        lo, hi = ctx.real('lb'), ctx.real('ub')
        ctx.assume(lo <= hi)
        r = SW.SwarmAlgorithm.speed_constriction(v, hi, lo)
        ctx.output('v', r)
        d = (hi - lo) / 2
        ctx.check('clamped', Or(r > d, r < -d))
        ctx.check('identity-inside', And(v <= d, v >= -d, ops.differs(r, v, 0)))
        ctx.check('saturates', Or(And(v > d, ops.differs(r, d, 0)), And(v < -d, ops.differs(r, -d, 0))))
        c1, c2 = ctx.real('c1', 1.5, 2.5), ctx.real('c2', 1.5, 2.5)
        k = SW.SwarmAlgorithm.khi(c1, c2)
        ctx.check('khi-is-one-up-to-rho-4', And(c1 + c2 <= 4, ops.differs(k, 1.0, 0)))
    return body


def velocity(args):
    dim, kind, nlead = args['dim'], args['kind'], args['nlead']
    SW = _install()
    prob = _problem(dim, 1)
    alg = _algo(SW, kind, prob)
    from artap.archive import Archive

    def body(ctx):
        from artap.individual import Individual
        Individual.counter = 0
        box = _sym_box(ctx, prob)
        alg.parameters = prob.parameters
        leaders = Archive()
        for j in range(nlead):
            L = SW.IndividualSwarm([ctx.real('lead%d_x%d' % (j, i)) for i in range(dim)])
            L.features['crowding_distance'] = ctx.real('lead%d_cd' % j, 0, None)
            leaders._contents.append(L)
        alg.leaders = leaders
        p = SW.IndividualSwarm([ctx.real('x%d' % i) for i in range(dim)])
        p.features['best_vector'] = [ctx.real('bx%d' % i) for i in range(dim)]
        p.features['velocity'] = [ctx.real('v%d' % i) for i in range(dim)]
        alg.update_velocity([p])
        vel = p.features['velocity']
        ctx.output('velocity', list(vel))
        ctx.check('one-velocity-per-coordinate', len(vel) != dim)
        for i in range(dim):
            lo, hi = box[i]
            d = (hi - lo) / 2
            ctx.check('velocity-within-half-range', Or(vel[i] > d, vel[i] < -d))
    return body


def position(args):
    dim, kind = args['dim'], args['kind']
    SW = _install()
    prob = _problem(dim, 1)
    alg = _algo(SW, kind, prob)
    damp = 0.001 if kind == 'smpso' else -1

    def body(ctx):
        from artap.individual import Individual
        Individual.counter = 0
        box = _sym_box(ctx, prob)
        alg.parameters = prob.parameters
        x = [ctx.real('x%d' % i) for i in range(dim)]
        v = [ctx.real('v%d' % i) for i in range(dim)]
        if args.get('start_inside', False):
            for i in range(dim):
                ctx.assume(And(x[i] >= box[i][0], x[i] <= box[i][1]))
        p = SW.IndividualSwarm(list(x))
        p.features['velocity'] = list(v)
        alg.update_position([p])
        ctx.output('pos', list(p.vector))
        ctx.output('vel', list(p.features['velocity']))
        for i in range(dim):
            lo, hi = box[i]
            s = x[i] + v[i]
            nx, nv = p.vector[i], p.features['velocity'][i]
            ctx.check('position-inside-box', Or(nx < lo, nx > hi))
            exp_x = ite(s > hi, hi, ite(s < lo, lo, s))
            exp_v = ite(Or(s > hi, s < lo), damp * v[i], v[i])
            ctx.check('position-is-sum-or-violated-bound', ops.differs(nx, exp_x, 1e-12))
            ctx.check('velocity-reversed-or-damped-at-the-bound', ops.differs(nv, exp_v, 1e-12))
    return body


def global_best(args):
    kind, nlead, nsw, N, m = args['kind'], args['nlead'], args['nswarm'], args['N'], args['m']
    SW = _install()
    st = common.install_comparator_summaries([m + 1], eps_lists=[[0.1, 0.1]])
    prob = _problem(1, m)
    alg = _algo(SW, kind, prob)
    from artap.archive import Archive
    import artap.operators as O

    def body(ctx):
        from artap.individual import Individual
        Individual.counter = 0
        alg.options['max_population_size'] = N
        leaders = Archive(dominance=O.EpsilonDominance(epsilons=[0.1, 0.1]))
        members = []
        for j in range(nlead):
            L = SW.IndividualSwarm([0.5] if args.get('shared_vectors') else [float(j)])
            L.costs_signed = common.sym_costs(ctx, 'lead%d' % j, m, True)
            if ctx.bool('lead%d_inf' % j):
                L.features['crowding_distance'] = math.inf
            else:
                L.features['crowding_distance'] = ctx.real('lead%d_cd' % j, 0, None)
            members.append(L)
        # invariant of the pre-state: mutually non-dominated leaders with distinct vectors; at most N of them unless the
        # configuration models a population size lowered since the last generation
        for a in members:
            for b in members:
                if a is not b:
                    ctx.assume(Not(dominates(a.costs_signed, b.costs_signed)))
                    ctx.assume(Not(And(*[u == w for u, w in zip(a.costs_signed, b.costs_signed)])))
        leaders._contents = list(members)
        alg.leaders = leaders
        if hasattr(alg, 'archive'):
            alg.archive = Archive(dominance=O.EpsilonDominance(epsilons=[0.1, 0.1]))
        swarm = []
        for j in range(nsw):
            P = SW.IndividualSwarm([0.5] if args.get('shared_vectors') else [10.0 + j])   # e.g. particles clamped onto the same bound
            P.costs_signed = common.sym_costs(ctx, 'p%d' % j, m, True)
            swarm.append(P)
        alg.update_global_best(swarm)
        cont = list(alg.leaders)
        ctx.output('leaders', [c.id for c in cont])
        ctx.check('leader-archive-bounded-by-population-size', len(cont) > N)
        ctx.check('leader-archive-not-empty', len(cont) == 0)
        ctx.check('leaders-mutually-non-dominated',
                  Or(*[dominates(a.costs_signed, b.costs_signed) for a in cont for b in cont if a is not b]))
        ctx.check('leaders-come-from-archive-or-swarm', any(not any(c is z for z in members + swarm) for c in cont))
    return common.merge_stats(body, st)


def configs(tier):
    out = []
    kinds = ('omopso', 'smpso', 'psoga')
    for kind in kinds:
        for m in (1, 2):
            out.append({'name': 'pbest-%s-m%d' % (kind, m), 'task': 'particle_best', 'args': {'m': m, 'kind': kind}, 'weight': 2})
            if kind == 'psoga' or m == 2:
                out.append({'name': 'pbest-shared-record-%s-m%d' % (kind, m), 'task': 'particle_best_shared',
                            'args': {'m': m, 'kind': kind}, 'weight': 4})
        for m in ((4, 5) if kind == 'omopso' else (4,)):          # size thresholds: many objectives
            out.append({'name': 'pbest-%s-m%d' % (kind, m), 'task': 'particle_best', 'args': {'m': m, 'kind': kind}, 'weight': 3 ** m})
        for dim in ((1, 2) if tier == 'quick' else (1, 2, 3)):
            for nlead in (1, 2):
                out.append({'name': 'velocity-%s-d%d-l%d' % (kind, dim, nlead), 'task': 'velocity',
                            'args': {'dim': dim, 'kind': kind, 'nlead': nlead}, 'weight': 6 ** dim,
                            'split': 32 if dim >= 2 else None, 'engine': {'validate': 20, 'first_timeout_s': 2}})
            out.append({'name': 'position-%s-d%d' % (kind, dim), 'task': 'position', 'args': {'dim': dim, 'kind': kind},
                        'weight': 3 ** dim, 'engine': {'validate': 40}})
    for kind in kinds:        # size thresholds: more coordinates
        out.append({'name': 'position-%s-d5' % kind, 'task': 'position', 'args': {'dim': 5, 'kind': kind}, 'weight': 3 ** 5,
                    'split': 32, 'engine': {'validate': 40}})
    out.append({'name': 'constriction', 'task': 'constriction', 'args': {}, 'weight': 1})
    gb = [(1, 1, 1, 1), (1, 2, 1, 2), (2, 1, 2, 2), (2, 2, 2, 2), (2, 2, 1, 1)]
    if tier == 'thorough':
        gb += [(3, 2, 3, 2), (2, 3, 2, 2), (3, 3, 3, 2), (2, 3, 3, 1)]
    for kind in kinds:
        out.append({'name': 'gbest-%s-shared-position-vectors' % kind, 'task': 'global_best',
                    'args': {'kind': kind, 'nlead': 2, 'nswarm': 2, 'N': 3, 'm': 2, 'shared_vectors': True},
                    'weight': 10 ** 4, 'split': 48, 'engine': {'validate': 20}})
    # pre-states with MORE leaders than the population size: the size option was lowered since the last generation (a
    # second run of the same algorithm object with a smaller population); the very next update must restore the bound
    shrunk = [(2, 1, 1, 2), (2, 2, 1, 2)] + ([(3, 1, 2, 2), (3, 2, 1, 2)] if tier == 'thorough' else [])
    for kind in kinds:
        for nlead, nsw, N, m in gb + shrunk:
            if nlead > N and (nlead, nsw, N, m) not in shrunk:
                continue
            out.append({'name': 'gbest-%s-l%d-s%d-N%d-m%d' % (kind, nlead, nsw, N, m), 'task': 'global_best',
                        'args': {'kind': kind, 'nlead': nlead, 'nswarm': nsw, 'N': N, 'm': m},
                        'weight': 10 ** (nlead + nsw), 'split': 48 if nlead + nsw >= 4 else None, 'engine': {'validate': 20}})
    return out
