"""C19 -- surrogate wrapper returns true values unless predicting; exact accounting.

The real SurrogateModelEval.evaluate and SurrogateModelPredict.evaluate /
evaluate_individual / add_data (artap/surrogate.py) run over request sequences with an
uninterpreted objective; the predict hook's accept/decline decision, the outcome of every
training (trained or not), train_step and the initial trained state are solver choices.
A reference automaton written here predicts counters, training data, retrain instants and
returned values.
"""
from symx import core, ops, stubs
from symx.ops import And, Or, Not
from . import common, evalcommon as ec

PROPERTY = 'C19'

META = {
    'bounds': {'quick': 'training set preloaded with 1/3 samples; scripted sequences of 14-25 requests with train_step 4/5/7; k<=7 without hook; train_step switched mid-run; objective may return +inf (k<=3); request sequences of length <=4, train_step in {-1,1,2,3}, trained/untrained start, with and without predict hook',
               'thorough': 'inf k<=4; length <=7'},
    'stubs': ['Problem.evaluate -> uninterpreted function + call log',
              'Problem.predict (the hook) -> returns None or a fresh value by symbolic choice, consultations logged',
              'train() of a harness subclass of SurrogateModelPredict records the call and sets `trained` to a symbolic boolean '
              '(scikit-learn / SMT regressors are C/NumPy code and outside)'],
    'assumptions': ['the concrete regressors (SurrogateModelScikit.train etc.) are outside the claim; only the accounting of the base classes is encoded'],
}


def preload():
    common.preload_all()


def predicting(args):
    k, hook = args['k'], args['hook']
    from artap.individual import Individual
    from artap.surrogate import SurrogateModelPredict
    import artap.surrogate as SUR
    stubs.install((SUR, 'math', stubs.math_shim))       # math.isfinite & co. on proxies (a proxy is a finite real)
    prob = ec.make_problem(2, ('minimize',), 0)
    box = {}

    if hook:
        def predict(individual):
            ctx = box['ctx']
            box['consulted'].append(len(box['requests']) - 1)
            j = len(box['consulted'])
            script = box.get('script')
            accept = (script[len(box['requests']) - 1] == 'P') if script else (ctx.choice('hook_accepts%d' % j, 2) == 1)
            if accept:
                v = [ctx.real('P_call%d' % j)]
                box['predicted'].append(v)
                return v
            return None
        prob.predict = predict

    class Model(SurrogateModelPredict):
        def __init__(self, problem):
            super().__init__(problem)
            self.train_calls = []

        def train(self):
            self.train_calls.append(self.eval_counter)
            self.trained = True if box.get('script') else box['ctx'].choice('trained_after_train%d' % len(self.train_calls), 2) == 1

        def predict(self, x, *a):
            raise AssertionError('regressor.predict is not part of the accounting')

        def init_default_regressor(self):
            self.regressor = 'default'

    def body(ctx):
        ec.reset_problem(prob, ctx)
        prob.h.may_be_inf = bool(args.get('inf'))
        box.update(ctx=ctx, consulted=[], predicted=[], requests=[], script=args.get('script'))
        returned = []
        # state that survives between uses: another model object of the same class was filled and trained earlier
        decoy = Model(prob)
        decoy.add_data([0.0, 0.0], [1.0])
        decoy.eval_counter, decoy.predict_counter, decoy.trained, decoy.train_step = 3, 2, True, 1
        decoy.train_calls.append(1)
        model = Model(prob)
        prob.surrogate = model
        if args.get('script'):
            # LONG request sequence: the accept / decline pattern of the hook is scripted (E = the hook declines or is not
            # consulted, P = it accepts when consulted), every training succeeds, train_step is fixed; vectors, objective
            # values and predictions stay symbolic
            model.train_step = args['train_step']
            model.trained = False
        else:
            model.train_step = [-1, 1, 2, 3][ctx.choice('train_step', 4)]
            model.trained = ctx.choice('trained0', 2) == 1
        # reference automaton
        r_trained = model.trained
        r_eval = r_pred = 0
        r_x, r_y, r_train = [], [], []
        for j in range(args.get('preload', 0)):
            # the training set is seeded before the run (read_from_data_store() after an earlier pass-through run): the
            # schedule counts TRUE EVALUATIONS, not training-set rows
            px, py = [ctx.real('pre%d_x0' % j), ctx.real('pre%d_x1' % j)], [ctx.real('pre%d_y' % j)]
            model.add_data(list(px), list(py))
            r_x.append(px)
            r_y.append(py)
        for i in range(k):
            if args.get('train_step_changes') and i == args['train_step_changes']:
                # the user switches the retraining schedule in the middle of a run (sampling phase with -1 first, a
                # positive step later -- the library's own surrogate example does that)
                model.train_step = [-1, 1, 2, 3][ctx.choice('train_step_from_request_%d' % i, 4)]
            ind = Individual(ec.sym_vector(ctx, 'r%d' % i, prob))
            box['requests'].append(ind)
            ncons, ncalls, npred = len(box['consulted']), len(prob.h.calls), len(box['predicted'])
            was_trained = model.trained
            ret = model.evaluate(ind)
            consulted = len(box['consulted']) > ncons
            predicted = len(box['predicted']) > npred
            evaluated = len(prob.h.calls) > ncalls
            ctx.check('hook-consulted-only-when-trained', consulted != (bool(was_trained) and hook))
            ctx.check('hook-consulted-at-most-once', len(box['consulted']) - ncons > 1)
            ctx.check('true-evaluation-iff-no-prediction', evaluated == predicted)
            ctx.check('objective-called-at-most-once', len(prob.h.calls) - ncalls > 1)
            if predicted:
                r_pred += 1
                ctx.check('prediction-returned-unchanged', Not(ec.same_vec(list(ret), list(box['predicted'][-1]))) if isinstance(ret, list) else True)
            else:
                r_eval += 1
                vec, vals, _f = prob.h.calls[-1]
                ctx.check('true-value-returned-unchanged', Not(ec.same_vec(list(ret), list(vals))) if isinstance(ret, (list, tuple)) else True)
                ctx.check('objective-called-on-the-request', Not(ec.same_vec(vec, ind.vector)))
                r_x.append(list(ind.vector))
                r_y.append(list(ret) if isinstance(ret, (list, tuple)) else ret)       # copies: the oracle must not alias the model's lists
                returned.append((ret, list(ret) if isinstance(ret, (list, tuple)) else ret))
                step = args['train_step'] if args.get('script') else model.train_step     # scripted: the step the user configured
                if step != -1 and r_eval % step == 0:
                    r_train.append(r_eval)
            ctx.check('evaluation-counter', model.eval_counter != r_eval)
            ctx.check('prediction-counter', model.predict_counter != r_pred)
            ctx.check('counters-add-up-to-requests', model.eval_counter + model.predict_counter != i + 1)
            if len(model.x_data) != len(r_x) or len(model.y_data) != len(r_y):
                ctx.check('training-set-is-evaluated-pairs-in-order', True)
            else:
                ctx.check('training-set-is-evaluated-pairs-in-order',
                          Or(*([Not(ec.same_vec(list(a), list(b))) for a, b in zip(model.x_data, r_x)] +
                               [Not(ec.same_vec(list(a), list(b))) for a, b in zip(model.y_data, r_y)])))
            ctx.check('retrained-exactly-at-every-train_step-th-evaluation', model.train_calls != r_train)
            # multi-step: what an earlier request returned (the list object Job stores as individual.costs) is not
            # rewritten by later requests / retrainings
            ctx.check('values-returned-earlier-are-not-modified-later',
                      Or(*[Not(ec.same_vec(list(obj), cp)) for obj, cp in returned if isinstance(obj, (list, tuple))]) if returned else False)
        ctx.output('evals', model.eval_counter)
        ctx.output('preds', model.predict_counter)
    return body


def passthrough(args):
    k = args['k']
    from artap.individual import Individual
    prob = ec.make_problem(2, ('minimize', 'maximize'), 0)

    def body(ctx):
        ec.reset_problem(prob, ctx)
        sur = prob.surrogate
        for i in range(k):
            ind = Individual(ec.sym_vector(ctx, 'r%d' % i, prob))
            n0 = len(prob.h.calls)
            ret = sur.evaluate(ind)
            ctx.check('passthrough-one-call', len(prob.h.calls) != n0 + 1)
            vec, vals, _f = prob.h.calls[-1]
            ctx.check('passthrough-true-value', Not(ec.same_vec(list(ret), list(vals))) if isinstance(ret, (list, tuple)) else True)
            ctx.check('passthrough-counter', sur.eval_counter != i + 1)
            ctx.check('passthrough-no-prediction-count', sur.predict_counter != 0)
            ctx.check('passthrough-on-the-request', Not(ec.same_vec(vec, ind.vector)))
        ctx.output('evals', sur.eval_counter)
    return body


def configs(tier):
    K = 4 if tier == 'quick' else 7
    out = [{'name': 'passthrough-k3', 'task': 'passthrough', 'args': {'k': 3}, 'weight': 1}]
    for k in range(1, K + 1):
        for hook in (True, False):
            out.append({'name': 'predict-k%d-%s' % (k, 'hook' if hook else 'nohook'), 'task': 'predicting',
                        'args': {'k': k, 'hook': hook}, 'weight': 4 ** k if hook else 2 ** k,
                        'split': 48 if (hook and k >= 4) else None, 'engine': {'validate': 20}})
    if tier == 'quick':
        for k in (5, 6, 7):       # size thresholds: longer request sequences without the hook (few choices per request)
            out.append({'name': 'predict-k%d-nohook' % k, 'task': 'predicting', 'args': {'k': k, 'hook': False}, 'weight': 2 ** k,
                        'split': 32 if k >= 6 else None, 'engine': {'validate': 20}})
    for k in ((2, 3) if tier == 'quick' else (2, 3, 4)):
        out.append({'name': 'predict-k%d-nohook-objective-may-return-inf' % k, 'task': 'predicting',
                    'args': {'k': k, 'hook': False, 'inf': True}, 'weight': 4 ** k, 'split': 48 if k >= 4 else None, 'engine': {'validate': 20}})
    for k, at in (((3, 1), (4, 2)) if tier == 'quick' else ((3, 1), (4, 2), (5, 2), (5, 3))):
        out.append({'name': 'predict-k%d-nohook-train_step-changes-at-request-%d' % (k, at), 'task': 'predicting',
                    'args': {'k': k, 'hook': False, 'train_step_changes': at}, 'weight': 4 * 2 ** k * 4, 'split': 48 if k >= 4 else None,
                    'engine': {'validate': 20}})
    out.append({'name': 'predict-k3-hook-train_step-changes-at-request-1', 'task': 'predicting',
                'args': {'k': 3, 'hook': True, 'train_step_changes': 1}, 'weight': 4 ** 3 * 4, 'split': 48, 'engine': {'validate': 20}})
    for k, pre in (((3, 1), (4, 3)) if tier == 'quick' else ((3, 1), (4, 3), (5, 2), (4, 5))):
        out.append({'name': 'predict-k%d-nohook-preloaded-%d' % (k, pre), 'task': 'predicting',
                    'args': {'k': k, 'hook': False, 'preload': pre}, 'weight': 4 * 2 ** k, 'split': 48 if k >= 4 else None, 'engine': {'validate': 20}})
    out.append({'name': 'predict-k3-hook-preloaded-1', 'task': 'predicting',
                'args': {'k': 3, 'hook': True, 'preload': 1}, 'weight': 4 ** 3, 'split': 48, 'engine': {'validate': 20}})
    scripts = [(4, 'EEEEPPPPEEEEEE'), (5, 'EEEEEPPPEPEEEEEEE'), (7, 'EEEEEEEPPPPEEEEEEEEEEEEEE'), (4, 'EEEEPEPEPEPEEEEE')]
    for ts, sc in (scripts[:3] if tier == 'quick' else scripts):
        out.append({'name': 'predict-scripted-train_step%d-%s' % (ts, sc), 'task': 'predicting',
                    'args': {'k': len(sc), 'hook': True, 'script': sc, 'train_step': ts}, 'weight': len(sc), 'engine': {'validate': 5}})
    out.append({'name': 'predict-k2-hook-objective-may-return-inf', 'task': 'predicting',
                'args': {'k': 2, 'hook': True, 'inf': True}, 'weight': 40, 'engine': {'validate': 20}})
    return out
