"""C16 -- multi-objective benchmarks satisfy the defining identities of their families.

The real evaluate() methods of artap/benchmark_pareto.py run on a symbolic point of the
box; sin / cos / sqrt (imported by name from math) are replaced by uninterpreted
functions with the lemma library (Pythagoras, ranges, first-quadrant signs,
sqrt(t)^2 = t); x**100 in DTLZ4 is an uninterpreted monomial.  The identities are then
polynomial statements over those terms, decided in NRA.
"""
import math

from symx import core, ops, stubs
from symx.ops import And, Or, Not
from . import common

PROPERTY = 'C16'

TOL = 1e-6

META = {
    'bounds': {'quick': 'DTLZ1 m=6,7 (k=1); DTLZ1 m=2..3 with k in {1,2,5}; DTLZ2-4 m=2..4 (dimension m+9); ZDT1 n in {2,3,30}; bi-objective problem',
               'thorough': 'DTLZ1 m=2..5, k in {1,2,5,10}; DTLZ2-4 m=2..5; ZDT1 n in {2,3,5,30}'},
    'stubs': ['np.asarray/np.array/float inside artap.benchmark_pareto keep proxies (object arrays; aliasing of asarray kept)',
              'math.sin/cos/sqrt (module globals of artap.benchmark_pareto) -> uninterpreted SIN/COS/SQRT + lemma library',
              'x**100 -> uninterpreted monomial IPOW100 with unit-interval facts'],
    'assumptions': ['identities over the reals, checked to 1e-6 absolute; replays use real doubles and math functions',
                    'math.pi is the double constant; the symbolic PI used in the quadrant lemmas lies in a 1.2e-16 wide enclosure above it',
                    'objective counts m>5 outside the claim'],
}


def preload():
    common.preload_all()
    import artap.benchmark_pareto  # noqa


def _install():
    import artap.benchmark_pareto as BP
    stubs.install((BP, 'sin', ops.ssin), (BP, 'cos', ops.scos), (BP, 'sqrt', ops.ssqrt),
                  (BP, 'np', stubs.numpy_shim), (BP, 'float', ops.sfloat))
    return BP


def _point(ctx, n, lo=0.0, hi=1.0):
    return [ctx.real('x%d' % i, lo, hi) for i in range(n)]


def dtlz(args):
    fam, m, k = args['family'], args['m'], args.get('k', 10)
    BP = _install()
    from artap.individual import Individual
    cls = {1: BP.DTLZI, 2: BP.DTLZII, 3: BP.DTLZIII, 4: BP.DTLZIV}[fam]
    n = m + k - 1
    def other_object(c, dim, mm):
        # state that survives between uses: other DTLZ objects (same m with another dimension, another m) are created and
        # evaluated in the same process, before and after the object under test
        try:
            o = c(**{'dimension': dim, 'm': mm})
            o.evaluate(Individual([0.25] * dim))
            return o
        except Exception:
            return None
    keep = [other_object(BP.DTLZI, m + (2 if k != 3 else 4) - 1, m), other_object(cls, n + 1, m + 1)]
    prob = cls(**{'dimension': n, 'm': m})
    keep += [other_object(BP.DTLZI, m + (4 if k != 5 else 6) - 1, m)]
    prob._symx_keep_alive = keep

    def body(ctx):
        ops.sym_pi()
        x = _point(ctx, n)
        if args.get('near_one'):
            # sub-box in which x**100 is neither ~0 nor 1 (the only region where DTLZ4's position
            # variables matter): helps the solver to pick witnesses that reproduce on real doubles
            for v in x[:m - 1]:
                ctx.assume(And(v >= 0.99, v <= 0.999))
        if args.get('ndarray'):
            # the design vector handed over as a numpy array (object array of proxies when symbolic, float array in
            # replays): evaluate() must neither depend on the container type nor write into it
            import numpy as np
            vec = np.array(x, dtype=object if ctx.symbolic else float)
            ind = Individual(vec)
            f = prob.evaluate(ind)
            ctx.check('design-vector-not-modified-by-evaluate', Or(*[ops.differs(a, b, 0.0) for a, b in zip(list(ind.vector), x)]))
            f_again = prob.evaluate(ind)
            ctx.check('same-design-same-objectives', len(f_again) != len(f) or Or(*[ops.differs(a, b, 1e-9) for a, b in zip(f, f_again)]))
        else:
            f = prob.evaluate(Individual(x))
        ctx.output('f', [v for v in f])
        ctx.check('one-value-per-objective', len(f) != m)
        tail = x[n - k:]
        if fam in (1, 3):
            g = 100 * (k + ops.Sum([(y - 0.5) * (y - 0.5) - ops.scos(20.0 * math.pi * (y - 0.5)) for y in tail]))
        else:
            g = ops.Sum([(y - 0.5) * (y - 0.5) for y in tail])
        if fam == 1:
            lhs, rhs = ops.Sum(f), 0.5 * (1 + g)
            ctx.check('objectives-sum-to-half-(1+g)', ops.differs(lhs, rhs, TOL), witness=ops.far(lhs, rhs, 1e-3))
        else:
            lhs, rhs = ops.Sum([v * v for v in f]), (1 + g) * (1 + g)
            ctx.check('objective-vector-has-norm-(1+g)', ops.differs(lhs, rhs, TOL), witness=ops.far(lhs, rhs, 1e-3))
        for i, v in enumerate(f):
            ctx.check('objective-%d-nonnegative' % i, v < -TOL)
        if args.get('twice'):
            # multi-step: the same problem object evaluates a second, different point
            y = [ctx.real('y%d' % i, 0.0, 1.0) for i in range(n)]
            f2 = prob.evaluate(Individual(y))
            tail2 = y[n - k:]
            if fam in (1, 3):
                g2 = 100 * (k + ops.Sum([(t - 0.5) * (t - 0.5) - ops.scos(20.0 * math.pi * (t - 0.5)) for t in tail2]))
                l2, r2 = (ops.Sum(f2), 0.5 * (1 + g2)) if fam == 1 else (ops.Sum([v * v for v in f2]), (1 + g2) * (1 + g2))
            else:
                g2 = ops.Sum([(t - 0.5) * (t - 0.5) for t in tail2])
                l2, r2 = ops.Sum([v * v for v in f2]), (1 + g2) * (1 + g2)
            ctx.check('identity-holds-on-a-second-call', ops.differs(l2, r2, TOL), witness=ops.far(l2, r2, 1e-3))
    return body


def dtlz_front(args):
    """Pareto-optimal set (distance variables at 0.5): simplex of sum 0.5 / unit sphere."""
    fam, m = args['family'], args['m']
    BP = _install()
    from artap.individual import Individual
    cls = {1: BP.DTLZI, 2: BP.DTLZII, 4: BP.DTLZIV}[fam]
    k = 10 if fam != 1 else 5
    n = m + k - 1
    prob = cls(**{'dimension': n, 'm': m})

    def body(ctx):
        ops.sym_pi()
        x = _point(ctx, m - 1) + [0.5] * k
        f = prob.evaluate(Individual(x))
        ctx.output('f', list(f))
        if fam == 1:
            # cos(0) = 1 -> g = 100*(k - k) = 0
            ctx.check('front-on-simplex-0.5', ops.differs(ops.Sum(f), 0.5, TOL))
        else:
            ctx.check('front-on-unit-sphere', ops.differs(ops.Sum([v * v for v in f]), 1.0, TOL), witness=ops.far(ops.Sum([v * v for v in f]), 1.0, 1e-3))
    return body


def zdt1(args):
    n = args['n']
    BP = _install()
    from artap.individual import Individual
    prob = BP.ZDT1()

    def body(ctx):
        x = _point(ctx, n)
        f = prob.evaluate(Individual(x))
        ctx.output('f', list(f))
        ctx.check('two-objectives', len(f) != 2)
        g = 1 + (9.0 / (n - 1)) * ops.Sum(x[1:])   # same double constant as the code (float-faithful oracle)
        ctx.check('f1-is-x1', ops.differs(f[0], x[0], TOL))
        ctx.check('g-definition', ops.differs(prob.eval_g(Individual(x)), g, TOL))
        ctx.check('f2-identity', ops.differs(f[1], g * (1 - ops.ssqrt(x[0] / g)), TOL))
        ctx.check('f1-nonnegative', f[0] < -TOL)
        ctx.check('f2-nonnegative', f[1] < -TOL)
    return body


def biobjective(args):
    BP = _install()
    from artap.individual import Individual
    prob = BP.BiObjectiveTestProblem()

    def body(ctx):
        x = [ctx.real('x0', 0.1, 1.0), ctx.real('x1', 0.0, 5.0)]
        f = prob.evaluate(Individual(x))
        ctx.output('f', list(f))
        ctx.check('two-objectives', len(f) != 2)
        ctx.check('f1*f2=1+x2', ops.differs(f[0] * f[1], 1 + x[1], TOL))
        ctx.check('f1-nonnegative', f[0] < 0)
        ctx.check('f2-nonnegative', f[1] < 0)
    return body


def configs(tier):
    out = []
    M = 4 if tier == 'quick' else 5
    for m in range(2, (3 if tier == 'quick' else 5) + 1):
        for k in ((1, 2, 5) if tier == 'quick' else (1, 2, 5, 10)):
            out.append({'name': 'dtlz1-m%d-k%d' % (m, k), 'task': 'dtlz', 'args': {'family': 1, 'm': m, 'k': k},
                        'weight': m * k, 'engine': {'validate': 5, 'first_timeout_s': 0.5}})
    for m, k in (((6, 1), (7, 1)) if tier == 'quick' else ((6, 1), (7, 1), (6, 2), (9, 1))):      # size thresholds: many objectives
        out.append({'name': 'dtlz1-m%d-k%d' % (m, k), 'task': 'dtlz', 'args': {'family': 1, 'm': m, 'k': k},
                    'weight': m * k * 5, 'engine': {'validate': 5, 'first_timeout_s': 0.5}})
    for fam in (2, 3, 4):
        for m in range(2, M + 1):
            out.append({'name': 'dtlz%d-m%d' % (fam, m), 'task': 'dtlz', 'args': {'family': fam, 'm': m},
                        'weight': m * 10, 'engine': {'validate': 5, 'first_timeout_s': 0.5}})
    for fam in (1, 2, 3, 4):
        out.append({'name': 'dtlz%d-m2-two-calls' % fam, 'task': 'dtlz', 'args': {'family': fam, 'm': 2, 'k': 2 if fam == 1 else 10, 'twice': True},
                    'weight': 30, 'engine': {'validate': 5, 'first_timeout_s': 0.5}})
    for fam in (1, 2, 3, 4):
        for m in ((2,) if tier == 'quick' else (2, 3)):
            out.append({'name': 'dtlz%d-m%d-ndarray-vector' % (fam, m), 'task': 'dtlz',
                        'args': {'family': fam, 'm': m, 'k': 2 if fam == 1 else 10, 'ndarray': True},
                        'weight': 30, 'engine': {'validate': 5, 'first_timeout_s': 0.5}})
    for m in (2, 3):
        out.append({'name': 'dtlz4-m%d-positions-near-one' % m, 'task': 'dtlz', 'args': {'family': 4, 'm': m, 'near_one': True},
                    'weight': m * 10, 'engine': {'validate': 5, 'first_timeout_s': 0.5}})
    for fam in (1, 2, 4):
        for m in (2, 3):
            out.append({'name': 'dtlz%d-front-m%d' % (fam, m), 'task': 'dtlz_front', 'args': {'family': fam, 'm': m},
                        'weight': 3, 'engine': {'validate': 5, 'first_timeout_s': 0.5}})
    for n in ((2, 3, 30) if tier == 'quick' else (2, 3, 5, 30)):
        out.append({'name': 'zdt1-n%d' % n, 'task': 'zdt1', 'args': {'n': n}, 'weight': 2, 'engine': {'validate': 5, 'first_timeout_s': 0.5}})
    out.append({'name': 'biobjective', 'task': 'biobjective', 'args': {}, 'weight': 1})
    return out
