"""Problem with an 'arbitrary objective' for the evaluation harnesses (C05, C06, C09, C14, C19).

The user's objective and constraint functions are modelled as uninterpreted functions of
the design vector in Ackermann form: every call returns fresh named solver variables,
constrained to agree with every earlier call that was made with an equal vector
(congruence).  This keeps the function values part of the replayable input assignment:
in concrete mode the scripted values are returned by the same code.

An optional fault schedule turns every objective call into a symbolic 4-way choice
(ok / TimeoutError / RuntimeError / other exception)."""
import math

from symx import core, ops, stubs
from symx.ops import And, Implies


class OtherError(Exception):
    pass


FAULTS = ('ok', 'timeout', 'runtime', 'other')


def make_problem(dim, criteria, n_constraints=0, bounds=None, tols=None, extra_param=None):
    """One Problem object per harness (its constructor creates a temp dir + atexit hook);
    mutable fields are reset per path by reset()."""
    from artap.problem import Problem
    import artap.individual as _IND
    stubs.install((_IND, 'np', stubs.numpy_shim))      # np.asarray / np.round on cost arrays keep proxies

    class HarnessProblem(Problem):
        def set(self, **kw):
            self.name = 'harness'
            self.parameters = []
            for i in range(dim):
                p = {'name': 'x%d' % i, 'bounds': list(bounds[i]) if bounds else [0.0, 1.0]}
                if tols:
                    p['tol'] = tols[i]
                if extra_param:
                    p.update(extra_param)
                self.parameters.append(p)
            self.costs = []
            for k, c in enumerate(criteria):
                d = {'name': 'f%d' % k}
                if c is not None:
                    d['criteria'] = c
                self.costs.append(d)

        def evaluate(self, individual):
            return self.h.objective(individual)

        def evaluate_inequality_constraints(self, x):
            return self.h.constraints(x)

    prob = HarnessProblem()
    prob.h = Oracle(len(criteria), n_constraints)
    return prob


class InjectedRuntime(RuntimeError):
    pass


class InjectedTimeout(TimeoutError):
    pass


class Oracle(object):
    """Call log + Ackermannised uninterpreted functions."""

    def __init__(self, n_obj, n_con):
        self.n_obj = n_obj
        self.n_con = n_con
        self.reset(None)

    def reset(self, ctx, faults=False, max_faults=None):
        self.ctx = ctx
        self.calls = []          # (vector copy, values or None, fault)
        self.con_calls = []      # (vector copy, values)
        self.faults = faults
        self.max_faults = max_faults
        self.nfault = 0
        self.fault_kinds = 4
        self.fault_filter = None     # optional predicate(individual): may this call fail?
        self.return_array = False
        self.may_be_inf = False
        self.fault_script = None

    def _congruent(self, prev_calls, vec, vals):
        ctx = self.ctx
        for pv, pvals in prev_calls:
            if pvals is None or len(pv) != len(vec):
                continue
            same = And(*[a == b for a, b in zip(pv, vec)])
            ctx.assume(Implies(same, And(*[a == b for a, b in zip(pvals, vals)])))

    def objective(self, individual):
        ctx = self.ctx
        vec = list(individual.vector)
        j = len(self.calls)
        fault = 'ok'
        script = getattr(self, 'fault_script', None)
        if script is not None:
            fault = script[j] if j < len(script) else 'ok'          # scripted outcome per call (no solver choice)
        elif self.faults and (self.max_faults is None or self.nfault < self.max_faults) and (
                self.fault_filter is None or self.fault_filter(individual)):
            fault = FAULTS[ctx.choice('fault_call%d' % j, self.fault_kinds)]
        if fault != 'ok':
            self.nfault += 1
            self.calls.append((vec, None, fault))
            # "raises TimeoutError or RuntimeError" includes their subclasses (a solver wrapper's own SolverCrashed(RuntimeError),
            # NotImplementedError, ...): every second injected failure is an instance of a subclass
            if fault == 'timeout':
                raise (InjectedTimeout if j % 2 else TimeoutError)('injected')
            if fault == 'runtime':
                raise (InjectedRuntime if j % 2 else RuntimeError)('injected')
            raise OtherError('injected')
        vals = [ctx.real('F%d_call%d' % (k, j)) for k in range(self.n_obj)]
        if getattr(self, 'may_be_inf', False) and ctx.choice('F0_is_inf_call%d' % j, 2) == 1:
            vals[0] = math.inf            # a penalised / failed design: the objective returns +inf
        self._congruent([(v, x) for v, x, f in self.calls], vec, vals)
        self.calls.append((vec, vals, 'ok'))
        if getattr(self, 'return_array', False):
            # a user objective that returns its costs as a numpy array (object array of proxies / float array in replays)
            import numpy
            return numpy.array(list(vals), dtype=object if ctx.symbolic else float)
        return list(vals)

    def constraints(self, x):
        if self.n_con == 0:
            return []
        ctx = self.ctx
        vec = list(x)
        j = len(self.con_calls)
        vals = [ctx.real('G%d_call%d' % (k, j)) for k in range(self.n_con)]
        self._congruent(self.con_calls, vec, vals)
        self.con_calls.append((vec, vals))
        return list(vals)

    def ok_calls(self):
        return [(v, x) for v, x, f in self.calls if f == 'ok']


def reset_problem(prob, ctx, faults=False, max_faults=None):
    from artap.individual import Individual
    from artap.surrogate import SurrogateModelEval
    Individual.counter = 0
    prob.individuals = []
    prob.failed = []
    prob.surrogate = SurrogateModelEval(prob)
    prob.h.reset(ctx, faults, max_faults)


def sym_vector(ctx, name, prob):
    out = []
    for i, p in enumerate(prob.parameters):
        lo, hi = p['bounds']
        out.append(ctx.real('%s_x%d' % (name, i), lo, hi))
    return out


def same_vec(a, b):
    if len(a) != len(b):
        return False
    return And(*[x == y for x, y in zip(a, b)])
