"""C02 -- non-dominated sorting assigns every individual its true Pareto rank.

The real Selector.fast_nondominated_sorting (artap/operators.py) runs on n individuals
whose signed-cost vectors are solver variables (the comparator is used through its
ite-term summary, rebuilt from source).  Every explored path yields concrete front
numbers; the obligation says they satisfy the declarative rank relation, which is
written with the textbook dominance relation (not the code's comparator):
   front_i = 1                       if no j dominates i
   front_i = 1 + max{front_j | j dominates i}  otherwise
All input orders are covered because the individuals are interchangeable variables;
duplicates, chains, ties and mixed feasibility are models of the same variables.
"""
from symx import core, ops, stubs
from symx.ops import And, Or, Not, Implies
from . import common
from .common import dominates

PROPERTY = 'C02'

META = {
    'bounds': {'quick': 'in-place replacement between two sorts of the same list (n<=3); n<=3 individuals with 4-5 objectives; ndarray costs n=3; n<=4 individuals with m<=2 objectives + boolean marker; n=3,m=1 with the real crowding_distance calls kept',
               'thorough': 'ndarray costs n=3 (m=2), n=4 (m=1); n=5,m=2; n<=4,m=3; n=6,m=1'},
    'stubs': ['crowding_distance(sub_front) at the end of the sorter replaced by a no-op (ranks do not depend on it; subject of C03) except in the *-crowd configurations',
              'ParetoDominance.compare called through its ite summary (validated against the real method)'],
    'assumptions': ['floats as reals (exact: the sorter only compares)', 'population sizes beyond the bound outside the claim',
                    "features['dominate'] bookkeeping observed only through the ranks"],
}


def preload():
    common.preload_all()


def sorter(args):
    n, m, crowd = args['n'], args['m'], args.get('crowd', False)
    marker = args.get('marker', 'bool')
    import artap.operators as O
    from artap.individual import Individual
    st = common.install_comparator_summaries([m + 1])
    if not crowd:
        stubs.install((O, 'crowding_distance', lambda front: None))
    sel = O.DummySelector([{'name': 'x', 'bounds': [0.0, 1.0]}])

    def body(ctx):
        Individual.counter = 0
        inds = []
        for i in range(n):
            ind = Individual([float(i)])
            ind.costs_signed = common.sym_costs(ctx, 'i%d' % i, m, marker)
            inds.append(ind)
        costs = [list(i.costs_signed) for i in inds]
        if args.get('container') == 'ndarray':
            # signed costs stored as numpy arrays (object arrays of proxies when symbolic, float arrays in replays):
            # the real comparator runs (no summary); the ranks must be those of the ORIGINAL values, which must stay
            import numpy as np
            for ind in inds:
                ind.costs_signed = np.array(list(ind.costs_signed), dtype=object if ctx.symbolic else float)
        sel.fast_nondominated_sorting(inds)
        by_id = {i.id: i for i in inds}
        fr = [by_id[k].features['front_number'] for k in range(n)]
        ctx.output('fronts', [(-1 if f is None else f) for f in fr])
        if args.get('container') == 'ndarray':
            ctx.check('stored-costs-not-modified-by-sorting',
                      Or(*[ops.differs(a, b, 0.0) for ind, c in zip(inds, costs) for a, b in zip(list(ind.costs_signed), c)]))
        ctx.check('all-ranked', any(f is None for f in fr))
        if any(f is None for f in fr):
            return
        D = [[dominates(costs[j], costs[i]) if i != j else False for j in range(n)] for i in range(n)]  # D[i][j]: j dominates i
        bad = []
        for i in range(n):
            if fr[i] == 1:
                cond = And(*[Not(D[i][j]) for j in range(n) if j != i])
            else:
                prev = [D[i][j] for j in range(n) if j != i and fr[j] == fr[i] - 1]
                later = [Not(D[i][j]) for j in range(n) if j != i and fr[j] >= fr[i]]
                cond = And(Or(*prev) if prev else False, And(*later))
            bad.append(Not(cond))
        ctx.check('rank-relation', Or(*bad))
        # named consequences
        ctx.check('front1-is-nondominated-set',
                  Or(*[Not(ops.Iff(fr[i] == 1, And(*[Not(D[i][j]) for j in range(n) if j != i]))) for i in range(n)]))
        ctx.check('no-domination-inside-a-front',
                  Or(*[D[i][j] for i in range(n) for j in range(n) if i != j and fr[i] == fr[j]]))
        ctx.check('fronts-contiguous', sorted(set(fr)) != list(range(1, max(fr) + 1)))
        # multi-step: the SAME selector object sorts the same individuals again, in another order (what NSGA-II does
        # every generation with survivors); the ranks must come out the same
        if n >= 2 and not crowd:
            again = list(reversed(inds))
            sel.fast_nondominated_sorting(again)
            fr2 = [by_id[k].features['front_number'] for k in range(n)]
            ctx.check('re-sorting-in-another-order-gives-the-same-ranks', fr2 != fr)
        if args.get('inplace'):
            # steady-state use: the SAME list object is sorted, changed in place (one member replaced by a newcomer) and
            # sorted again by the same selector; the ranks must be the true ranks of the new content
            lst = list(inds)
            sel.fast_nondominated_sorting(lst)
            new = Individual([99.0])
            new.costs_signed = common.sym_costs(ctx, 'new', m, marker)
            lst.pop(0)
            lst.append(new)
            sel.fast_nondominated_sorting(lst)
            fr3 = [x.features.get('front_number') for x in lst]
            ctx.check('all-ranked-after-in-place-replacement', any(f is None for f in fr3))
            if not any(f is None for f in fr3):
                c3 = [list(x.costs_signed) for x in lst]
                k = len(lst)
                bad3 = []
                for i in range(k):
                    dom_i = [dominates(c3[j], c3[i]) for j in range(k) if j != i]
                    if fr3[i] == 1:
                        bad3.append(Or(*dom_i) if dom_i else False)
                    else:
                        prev = [dominates(c3[j], c3[i]) for j in range(k) if j != i and fr3[j] == fr3[i] - 1]
                        later = [dominates(c3[j], c3[i]) for j in range(k) if j != i and fr3[j] >= fr3[i]]
                        bad3.append(Or(Not(Or(*prev)) if prev else True, Or(*later) if later else False))
                ctx.check('rank-relation-after-in-place-replacement', Or(*bad3))
    return common.merge_stats(body, st)


def configs(tier):
    out = []

    def add(n, m, crowd=False, split=None, marker='bool', container=None, inplace=False):
        out.append({'name': 'sort-n%d-m%d%s%s%s%s' % (n, m, '-crowd' if crowd else '', '' if marker == 'bool' else '-' + marker,
                                                      '-' + container if container else '', '-inplace-replacement' if inplace else ''),
                    'task': 'sorter', 'args': {'n': n, 'm': m, 'crowd': crowd, 'marker': marker, 'container': container, 'inplace': inplace},
                    'weight': (n ** n) * m, 'split': split, 'engine': {'validate': 60}})
    for n in (1, 2, 3):
        for m in (1, 2):
            add(n, m)
    add(4, 1)
    add(4, 2, split=48)
    add(3, 1, crowd=True)
    add(3, 2, marker='real')
    add(2, 1, inplace=True)
    add(2, 2, inplace=True)
    add(3, 1, inplace=True, split=32)
    add(2, 4)
    add(2, 5)
    add(3, 4, split=32)
    add(3, 2, marker='real', container='ndarray', split=32)
    add(3, 1, crowd=True, marker='real', container='ndarray')
    if tier == 'thorough':
        add(5, 2, split=96)
        add(4, 3, split=64)
        add(3, 3)
        add(2, 6)
        add(3, 5, split=48)
        add(5, 1, split=48)
        add(6, 1, split=96)
        add(3, 2, crowd=True)
        add(4, 1, marker='real', container='ndarray', split=64)
        add(3, 2, crowd=True, marker='real', container='ndarray', split=32)
    return out
