"""C12 -- space-filling samplers have their defining coverage structure.

 * Latin hypercube: doe.lhs / _lhsclassic / build_lhs / construct_df_from_random_matrix /
   LHSGenerator.generate run unmodified on NumPy object arrays; RandomState.rand gives fresh
   reals in [0,1), RandomState.permutation a symbolic permutation (every permutation is a
   path).  Oracle: every stratum of every parameter holds exactly one sample; the stratum
   borders are the same doubles np.linspace produces (float-faithful oracle).
 * Halton: the body of the `for i in range(n_sample)` loop of doe._van_der_corput is cut
   out of the AST of the CURRENT source and run on a symbolic index written in digits
   (i = sum d_k b^k): the result equals sum d_k b^-(k+1) for EVERY i < b^K.  halton /
   build_halton / HaltonGenerator then run on a symbolic box; the unit samples are compared
   with an independent radical-inverse oracle and the affine scaling is decided for all
   bounds.
 * Uniform grid and random generator with symbolic bounds.
"""
import ast
import inspect
import itertools
import textwrap
from fractions import Fraction

import numpy as np

from symx import core, ops, stubs
from symx.ops import And, Or, Not, ite
from . import common, doecommon

PROPERTY = 'C12'

META = {
    'bounds': {'quick': 'concrete van der Corput check around powers of the bases 2..17 up to 5000 (70000); lhs() criteria center/maximin/centermaximin/correlation (N<=3, n<=3, <=2 candidates); LHS: N<=3 samples x 2 parameters (unit level and symbolic box); van der Corput digit law bases 2,3,5,7 with 8/6/5/4 digits; '
                        'Halton generator 12 points x 3 parameters, 3 points x 5 and 6 parameters, unit sequence for every dimension 1..40; grid k in 2..3, n<=2; random generator 3 designs',
               'thorough': 'LHS N=4 x 2, N=3 x 3; digit law bases 2..13 with 10/7/6/5/4/4 digits; Halton 50 x 4, 3 x 5..8, unit sequence for every dimension 1..200; grid k<=4, n<=3'},
    'stubs': ['numpy RandomState.rand -> fresh reals in [0,1); RandomState.permutation -> symbolic permutation (forking)',
              'np.zeros_like on object arrays -> object arrays', 'random.random (artap.utils) -> fresh real in [0,1)'],
    'assumptions': ['boxes of positive width lb < ub (strata and grids of a zero-width box collapse; outside)', 'floats as reals; strata borders are the doubles of np.linspace; Halton unit samples compared at 1e-12',
                    'the candidate scores of the LHS criteria maximin / centermaximin / correlation (scipy pdist, np.corrcoef: C code) are replaced by arbitrary scores, so that any candidate may be the one returned',
                    'LHS sample counts beyond the bound outside; the digit law covers every index below b^K only'],
}


def preload():
    common.preload_all()


def _strata_check(ctx, name, values, lo_of, hi_of, N):
    """values: list of N sample coordinates of one parameter; stratum k = [lo_of(k), hi_of(k))."""
    for k in range(N):
        inside = [And(v >= lo_of(k), v < hi_of(k)) for v in values]
        cnt = ops.Sum([ite(c, 1, 0) for c in inside])
        ctx.check(name + '-exactly-one-sample-per-stratum', cnt != 1)


def lhs_unit(args):
    N, n = args['N'], args['n']
    DOE = doecommon.install_lhs_random()

    crit = args.get('criterion')

    def body(ctx):
        DOE._symx_scores['k'] = 0
        H = DOE.lhs(n, samples=N) if crit is None else DOE.lhs(n, samples=N, criterion=crit, iterations=args.get('iterations', 2))
        ctx.check('lhs-shape', tuple(H.shape) != (N, n))
        if tuple(H.shape) != (N, n):
            return
        ctx.output('H', [[H[i, j] for j in range(n)] for i in range(N)])
        cut = np.linspace(0, 1, N + 1)
        for j in range(n):
            col = [H[i, j] for i in range(N)]
            _strata_check(ctx, 'lhs-unit', col, lambda k: float(cut[k]), lambda k: float(cut[k + 1]), N)
            ctx.check('lhs-unit-range', Or(*[Or(v < 0, v >= 1) for v in col]))
    return body


def lhs_generator(args):
    N, n = args['N'], args['n']
    doecommon.install_lhs_random()
    import artap.operators as O

    def body(ctx):
        params, box = doecommon.sym_parameters(ctx, n)
        g = O.LHSGenerator(params)
        g.init(N)
        rows = g.generate()
        ctx.output('rows', [list(r) for r in rows])
        ctx.check('lhs-row-count', len(rows) != N)
        ctx.check('lhs-one-coordinate-per-parameter', any(len(r) != n for r in rows))
        cut = np.linspace(0, 1, N + 1)
        for j in range(n):
            lo, hi = box[j]
            col = [r[j] for r in rows]
            _strata_check(ctx, 'lhs', col, lambda k: lo + float(cut[k]) * (hi - lo), lambda k: lo + float(cut[k + 1]) * (hi - lo), N)
    return body


def _extract_vdc_step():
    """Cut the per-index loop body out of the current source of doe._van_der_corput."""
    import artap.doe as DOE
    src = textwrap.dedent(inspect.getsource(DOE._van_der_corput))
    tree = ast.parse(src)
    fn = tree.body[0]
    loops = [s for s in fn.body if isinstance(s, ast.For)]
    if len(loops) != 1 or not isinstance(loops[0].target, ast.Name):
        raise core.Unsupported('cannot locate the per-index loop of _van_der_corput')
    loop = loops[0]
    idx = loop.target.id
    args = [a.arg for a in fn.args.args]
    if len(args) != 2:
        raise core.Unsupported('unexpected signature of _van_der_corput')
    new = ast.FunctionDef(name='_vdc_step', args=ast.arguments(posonlyargs=[], args=[ast.arg(arg=idx), ast.arg(arg=args[1]), ast.arg(arg='sequence')],
                                                               kwonlyargs=[], kw_defaults=[], defaults=[]),
                          body=loop.body + [ast.Return(value=ast.Name(id='sequence', ctx=ast.Load()))], decorator_list=[], type_params=[])
    mod = ast.Module(body=[new], type_ignores=[])
    ast.fix_missing_locations(mod)
    ns = dict(DOE.__dict__)
    exec(compile(mod, DOE.__file__ + '#_van_der_corput-loop-body', 'exec'), ns)
    return ns['_vdc_step']


def vdc_digits(args):
    base, K = args['base'], args['K']
    step = _extract_vdc_step()
    import artap.doe as DOE

    # the extracted body must agree with the real function on concrete indices
    real = DOE._van_der_corput(base ** 2 + 3, base)
    for i, want in enumerate(real):
        got = step(i, base, [])[-1]
        if abs(got - want) > 0:
            raise core.Unsupported('extracted loop body disagrees with _van_der_corput at i=%d' % i)

    def body(ctx):
        digits = [ctx.int('d%d' % k, 0, base - 1) for k in range(K)]
        i = ctx.int('i', 0, base ** K - 1)
        ctx.assume(i == ops.Sum([digits[k] * base ** k for k in range(K)]))
        seq = step(i, base, [])
        ctx.check('one-value-appended', len(seq) != 1)
        v = seq[-1]
        ctx.output('phi', v)
        if ctx.symbolic:
            exp = ops.Sum([digits[k] * core.SNum(ops.rv(Fraction(1, base ** (k + 1)))) for k in range(K)])
        else:
            exp = sum(digits[k] / float(base ** (k + 1)) for k in range(K))
        ctx.check('radical-inverse-digit-law', ops.differs(v, exp, 1e-12))
        ctx.check('in-unit-interval', Or(v < 0, v >= 1))
    return body


def _radical_inverse(i, b):
    f, r = Fraction(1, b), Fraction(0)
    while i > 0:
        i, d = divmod(i, b)
        r += d * f
        f /= b
    return r


def _primes(n):
    out, c = [], 2
    while len(out) < n:
        if all(c % p for p in out):
            out.append(c)
        c += 1
    return out


def halton_generator(args):
    N, n = args['N'], args['n']
    doecommon.install()
    import artap.operators as O
    import artap.doe as DOE

    def body(ctx):
        params, box = doecommon.sym_parameters(ctx, n)
        g = O.HaltonGenerator(params)
        g.init(N)
        rows = g.generate()
        ctx.output('nrows', len(rows))
        ctx.check('halton-row-count', len(rows) != N)
        ctx.check('halton-one-coordinate-per-parameter', any(len(r) != n for r in rows))
        primes = _primes(n)
        ctx.check('halton-prime-bases', [int(p) for p in DOE._primes_from_2_to(60)[:n]] != primes)
        unit = DOE.halton(N, n)
        bad_unit = any(abs(float(unit[i][j]) - float(_radical_inverse(i + 1, primes[j]))) > 1e-12 for i in range(N) for j in range(n))
        ctx.check('halton-unit-sample-is-radical-inverse-of-index(from-1)', bad_unit)
        bad = []
        for i in range(min(N, len(rows))):
            for j in range(n):
                lo, hi = box[j]
                phi = float(_radical_inverse(i + 1, primes[j]))
                bad.append(ops.far(rows[i][j], lo + phi * (hi - lo), 1e-9) if not ctx.symbolic else
                           Or(rows[i][j] - (lo + phi * (hi - lo)) > 1e-12 * (hi - lo), (lo + phi * (hi - lo)) - rows[i][j] > 1e-12 * (hi - lo)))
        ctx.check('halton-point-is-scaled-radical-inverse', Or(*bad))
        # a second design with the SAME sample count and parameter count but another box (another problem of the
        # same study): again the scaled radical inverses -- nothing may be carried over from the first design
        params_b, box_b = doecommon.sym_parameters(ctx, n, prefix='second_')
        gb = O.HaltonGenerator(params_b)
        gb.init(N)
        rows_b = gb.generate()
        ctx.check('halton-second-design-row-count', len(rows_b) != N or any(len(r) != n for r in rows_b))
        if len(rows_b) == N and all(len(r) == n for r in rows_b):
            i, j = N - 1, n - 1
            lo, hi = box_b[j]
            phi = float(_radical_inverse(i + 1, primes[j]))
            ctx.check('halton-second-design-same-size-other-box', Or(rows_b[i][j] - (lo + phi * (hi - lo)) > 1e-9 * (hi - lo),
                                                                     (lo + phi * (hi - lo)) - rows_b[i][j] > 1e-9 * (hi - lo)))
            lo, hi = box_b[0]
            phi = float(_radical_inverse(1, primes[0]))
            ctx.check('halton-second-design-first-point', Or(rows_b[0][0] - (lo + phi * (hi - lo)) > 1e-9 * (hi - lo),
                                                             (lo + phi * (hi - lo)) - rows_b[0][0] > 1e-9 * (hi - lo)))
        g.init(N + 2)             # re-initialised: a longer prefix of the same sequence
        rows2 = g.generate()
        ctx.check('halton-after-reinit', len(rows2) != N + 2 or any(len(r) != n for r in rows2))
        if len(rows2) == N + 2:
            j = n - 1
            lo, hi = box[j]
            phi = float(_radical_inverse(N + 2, primes[j]))
            ctx.check('halton-after-reinit-last-point', Or(rows2[-1][j] - (lo + phi * (hi - lo)) > 1e-9 * (hi - lo),
                                                           (lo + phi * (hi - lo)) - rows2[-1][j] > 1e-9 * (hi - lo)))
    return body


def halton_dimensions(args):
    """The dimension -> prime-base table of halton() is concrete code that branches on the number of parameters
    (it first asks for the primes below 10 and falls back to larger sieves): every dimension in the range is run."""
    dims, N = args['dims'], args['N']
    doecommon.install()
    import artap.doe as DOE

    def body(ctx):
        for n in range(dims[0], dims[1] + 1):
            primes = _primes(n)
            unit = DOE.halton(N, n)
            ctx.check('halton-shape(dim=%d)' % n, len(unit) != N or any(len(r) != n for r in unit))
            if len(unit) != N or any(len(r) != n for r in unit):
                continue
            bad = [(i, j) for i in range(N) for j in range(n)
                   if abs(float(unit[i][j]) - float(_radical_inverse(i + 1, primes[j]))) > 1e-12]
            ctx.check('halton-parameter-j-uses-the-j-th-prime(dim=%d)' % n, bool(bad))
        ctx.output('dims', list(dims))
    return body


def halton_sample_counts(args):
    """CONCRETE supplement (no symbolic input; decides nothing about other N): the digit law is proved symbolically for
    every index below b^K on the loop body of _van_der_corput; an implementation that computes the number of digits
    from the SAMPLE COUNT (logarithms, bit lengths) can only be probed: the last points of the sequence for sample
    counts around every power of the first seven prime bases, against the exact radical inverse."""
    doecommon.install()
    import artap.doe as DOE

    def body(ctx):
        limit = args['limit']
        for b in (2, 3, 5, 7, 11, 13, 17):
            counts, p = set(), b
            while p <= limit:
                counts.update((p - 1, p, p + 1, p + 2))
                p *= b
            for N in sorted(c for c in counts if 1 <= c <= limit + 2):
                seq = list(DOE._van_der_corput(N, b))
                bad = len(seq) != N or any(abs(float(seq[i]) - float(_radical_inverse(i, b))) > 1e-12 for i in range(max(0, N - 3), N))
                ctx.check('van-der-corput-last-points(base=%d)' % b, bad)
                if bad:
                    ctx.output('first-bad-count-base%d' % b, N)
                    break
        ctx.output('limit', limit)
    return body


def grid(args):
    k, n = args['k'], args['n']
    doecommon.install()
    import artap.operators as O

    def body(ctx):
        params, box = doecommon.sym_parameters(ctx, n)
        g = O.UniformGenerator(params)
        g.init(k)
        rows = g.generate()
        ctx.output('nrows', len(rows))
        ctx.check('grid-row-count', len(rows) != k ** n)
        ctx.check('grid-one-coordinate-per-parameter', any(len(r) != n for r in rows))
        levels = [[lo + i * (hi - lo) / (k - 1) for i in range(k)] for lo, hi in box]

        def eqv(a, b, j):
            # exact on solver terms; on floats (replay) relative to the range of the parameter
            if ctx.symbolic:
                return a == b
            return abs(a - b) <= 1e-9 * (box[j][1] - box[j][0])
        for j, (lo, hi) in enumerate(box):
            ctx.check('grid-first-level-is-lower-bound', Not(Or(*[eqv(r[j], lo, j) for r in rows])))
            ctx.check('grid-last-level-is-upper-bound', Not(Or(*[eqv(r[j], hi, j) for r in rows])))
        for combo in itertools.product(range(k), repeat=n):
            eq = [And(*[eqv(r[j], levels[j][combo[j]], j) for j in range(n)]) for r in rows]
            cnt = ops.Sum([ite(c, 1, 0) for c in eq])
            ctx.check('grid-every-combination-exactly-once', cnt != 1)
        # multi-step: the same generator object is re-initialised with another level count and with changed bounds
        k2 = k + 1
        g.init(k2)
        lo0, hi0 = box[0]
        new_hi = hi0 + 1.0
        params[0]['bounds'][1] = new_hi
        rows2 = g.generate()
        ctx.check('grid-after-reinit-row-count', len(rows2) != k2 ** n)
        if len(rows2) == k2 ** n:
            ctx.check('grid-after-reinit-uses-new-levels-and-bounds',
                      Or(Not(Or(*[eqv(r[0], new_hi, 0) for r in rows2])), Not(Or(*[eqv(r[0], lo0, 0) for r in rows2])),
                         Not(Or(*[eqv(r[0], lo0 + (new_hi - lo0) / (k2 - 1), 0) for r in rows2]))))
    return body


def random_generator(args):
    n, number = args['n'], args['number']
    doecommon.install()
    import artap.operators as O

    def body(ctx):
        params, box = doecommon.sym_parameters(ctx, n)
        g = O.RandomGenerator(params)
        g.init(number)
        rows = g.generate()
        ctx.output('rows', [list(r) for r in rows])
        ctx.check('random-count', len(rows) != number)
        ctx.check('random-one-coordinate-per-parameter', any(len(r) != n for r in rows))
        ctx.check('random-in-bounds', Or(*[Or(v < lo - 0.5e-12, v > hi + 0.5e-12) for r in rows for v, (lo, hi) in zip(r, box)]))
        g.init(number + 1)        # re-initialised: exactly the newly requested number
        ctx.check('random-count-after-reinit', len(g.generate()) != number + 1)
    return body


def configs(tier):
    Q = tier == 'quick'
    out = []
    ve = {'validate': 10, 'first_timeout_s': 5}
    for N, n in ((1, 1), (2, 2), (3, 2)) if Q else ((1, 1), (2, 2), (3, 2), (4, 2), (3, 3)):
        w = __import__('math').factorial(N) ** n
        out.append({'name': 'lhs-unit-N%d-n%d' % (N, n), 'task': 'lhs_unit', 'args': {'N': N, 'n': n}, 'weight': w,
                    'split': 48 if w > 100 else None, 'engine': ve})
        out.append({'name': 'lhs-generator-N%d-n%d' % (N, n), 'task': 'lhs_generator', 'args': {'N': N, 'n': n}, 'weight': 3 * w,
                    'split': 48 if w > 30 else None, 'engine': ve})
    # the other criteria of lhs(): every candidate they choose from must be a Latin hypercube of the requested shape
    for crit, N, n, it in ((('center', 3, 2, 1), ('maximin', 2, 2, 2), ('centermaximin', 3, 2, 1), ('correlation', 3, 2, 1), ('correlation', 2, 3, 2)) if Q else
                           (('center', 3, 2, 1), ('center', 2, 3, 1), ('maximin', 2, 2, 2), ('maximin', 3, 2, 1), ('centermaximin', 3, 2, 2),
                            ('correlation', 3, 2, 1), ('correlation', 2, 3, 2), ('correlation', 2, 2, 3))):
        w = __import__('math').factorial(N) ** (n * it) * 2 ** it
        out.append({'name': 'lhs-unit-%s-N%d-n%d-it%d' % (crit, N, n, it), 'task': 'lhs_unit',
                    'args': {'N': N, 'n': n, 'criterion': crit, 'iterations': it}, 'weight': w, 'split': 48 if w > 100 else None, 'engine': ve})
    bases = ((2, 8), (3, 6), (5, 5), (7, 4)) if Q else ((2, 10), (3, 7), (5, 6), (7, 5), (11, 4), (13, 4))
    for b, K in bases:
        out.append({'name': 'vdc-digit-law-b%d-K%d' % (b, K), 'task': 'vdc_digits', 'args': {'base': b, 'K': K}, 'weight': 10 * K,
                    'engine': {'validate': 10}})
    out.append({'name': 'halton-generator', 'task': 'halton_generator', 'args': {'N': 12 if Q else 50, 'n': 3 if Q else 4}, 'weight': 10,
                'engine': {'validate': 3}})
    for n in ((5, 6) if Q else (5, 6, 7, 8)):
        out.append({'name': 'halton-generator-n%d' % n, 'task': 'halton_generator', 'args': {'N': 3, 'n': n}, 'weight': n,
                    'engine': {'validate': 3}})
    out.append({'name': 'halton-sample-counts-around-powers-of-the-base-concrete', 'task': 'halton_sample_counts',
                'args': {'limit': 5000 if Q else 70000}, 'weight': 5, 'engine': {'validate': 1}})
    out.append({'name': 'halton-dimensions', 'task': 'halton_dimensions', 'args': {'dims': (1, 40) if Q else (1, 200), 'N': 3 if Q else 4},
                'weight': 5, 'engine': {'validate': 1}})
    out.append({'name': 'halton-generator-1x1', 'task': 'halton_generator', 'args': {'N': 1, 'n': 1}, 'weight': 1, 'engine': {'validate': 3}})
    for k, n in ((2, 1), (2, 2), (3, 2)) if Q else ((2, 1), (2, 2), (3, 2), (4, 2), (3, 3), (2, 3)):
        out.append({'name': 'grid-k%d-n%d' % (k, n), 'task': 'grid', 'args': {'k': k, 'n': n}, 'weight': k ** n, 'engine': {'validate': 3}})
    out.append({'name': 'random-generator', 'task': 'random_generator', 'args': {'n': 2, 'number': 3}, 'weight': 3, 'engine': {'validate': 5}})
    return out
