"""C13 -- factorial and screening designs have their defining combinatorial structure.

The coded design matrices come out of NumPy/SciPy code whose only inputs are small integers
(factor and level counts), so CONFIGURATIONS ARE ENUMERATED; what the solver quantifies over
are the level values and bounds: the real generators (artap/operators.py) and builders
(artap/doe.py) run per configuration with symbolic bounds (lb < ub) or symbolic pairwise
distinct level values, every output cell is then a solver term, and the structure laws are
SMT obligations over those terms.
"""
import itertools
import math

import numpy as np

from symx import core, ops, stubs
from symx.ops import And, Or, Not, ite
from . import common, doecommon

PROPERTY = 'C13'

META = {
    'bounds': {'quick': 'generator sequences of 3 on shared parameter dicts (n=3); full factorial: 2- and 3-level generators for 1..3 factors, level lists [2,3],[3,2,2],[4,3]; Plackett-Burman n=1..23; '
                        'Box-Behnken n=3..5; GSD level lists [3,4],[2,3,4],[3,3,3],[4,4] with reductions 2..3 and every complementary count',
               'thorough': 'sequences of 3-4; full factorial up to 4 factors / level lists up to [3,4,2,2]; Box-Behnken n=3..7; GSD up to [3,4,6], reductions 2..4'},
    'stubs': [],
    'assumptions': ['configurations (factor counts, level counts, reductions) are enumerated, not symbolic: the combinatorial kernels are NumPy/SciPy '
                    'code on small integers and run concretely; the solver decides the laws for all level VALUES and bounds',
                    'fractional-factorial and central-composite builders are not named by the property and outside',
                    'Plackett-Burman beyond 23 factors and Box-Behnken beyond 7 outside'],
}


def preload():
    common.preload_all()


def _count(conds):
    return ops.Sum([ite(c, 1, 0) for c in conds])


def _levels(ctx, name, k):
    vals = [ctx.real('%s_l%d' % (name, i)) for i in range(k)]
    for a, b in itertools.combinations(vals, 2):
        ctx.assume(a != b)
    return vals


def _fullfact_checks(ctx, rows, level_vals):
    n = len(level_vals)
    total = 1
    for lv in level_vals:
        total *= len(lv)
    ctx.output('nrows', len(rows))
    ctx.check('fullfact-row-count-is-product-of-level-counts', len(rows) != total)
    ctx.check('fullfact-one-coordinate-per-factor', any(len(r) != n for r in rows))
    if total <= 36:
        for combo in itertools.product(*[range(len(lv)) for lv in level_vals]):
            eq = [And(*[r[j] == level_vals[j][combo[j]] for j in range(n)]) for r in rows]
            ctx.check('fullfact-every-combination-exactly-once', _count(eq) != 1)
    else:
        # one query for an arbitrary (symbolic) combination index
        sel = []
        for j, lv in enumerate(level_vals):
            c = ctx.int('combo%d' % j, 0, len(lv) - 1)
            v = lv[-1]
            for i in range(len(lv) - 2, -1, -1):
                v = ite(c == i, lv[i], v)
            sel.append(v)
        eq = [And(*[r[j] == sel[j] for j in range(n)]) for r in rows]
        ctx.check('fullfact-every-combination-exactly-once', _count(eq) != 1)


def fullfact(args):
    n, center = args['n'], args['center']
    doecommon.install()
    import artap.operators as O

    def body(ctx):
        params, box = doecommon.sym_parameters(ctx, n)
        g = O.FullFactorGenerator(params)
        g.init(center)
        rows = g.generate()
        lv = [[lo, (lo + hi) / 2.0, hi] if center else [lo, hi] for lo, hi in box]
        _fullfact_checks(ctx, rows, lv)
        # multi-step: same generator object, centre option toggled and a bound changed in place
        g.init(not center)
        lo0, hi0 = box[0]
        params[0]['bounds'][0] = lo0 - 1.0
        box2 = [(lo0 - 1.0, hi0)] + list(box[1:])
        lv2 = [[lo, (lo + hi) / 2.0, hi] if not center else [lo, hi] for lo, hi in box2]
        rows2 = g.generate()
        tot = 1
        for l in lv2:
            tot *= len(l)
        ctx.check('fullfact-after-reinit-row-count', len(rows2) != tot)
        if len(rows2) == tot:
            ctx.check('fullfact-after-reinit-uses-new-bound', Not(Or(*[r[0] == lo0 - 1.0 for r in rows2])))
            ctx.check('fullfact-after-reinit-levels', Or(*[Not(Or(*[r[j] == v for v in lv2[j]])) for r in rows2 for j in range(n)]))
    return body


def fullfact_levels(args):
    counts = args['counts']
    doecommon.install()
    import artap.operators as O

    def body(ctx):
        params, box = doecommon.sym_parameters(ctx, len(counts))
        # large factors get concrete distinct level values (130 symbolic levels would need 8385 disequalities);
        # the solver still quantifies over the small factors' values and over the combination index
        vals = [_levels(ctx, 'f%d' % j, k) if k <= 8 else [float(3 * i + 1) for i in range(k)] for j, k in enumerate(counts)]
        g = O.FullFactorLevelsGenerator(params)
        g.init([list(v) for v in vals])
        rows = g.generate()
        _fullfact_checks(ctx, rows, vals)
        # multi-step: the same generator object gets other level lists
        if all(k <= 8 for k in counts):
            vals2 = [list(v[:-1]) if len(v) > 2 else list(v) for v in vals]
            g.init([list(v) for v in vals2])
            rows2 = g.generate()
            tot = 1
            for v in vals2:
                tot *= len(v)
            ctx.check('fullfact-levels-after-reinit-row-count', len(rows2) != tot)
    return body


def plackett_burman(args):
    n = args['n']
    doecommon.install()
    import artap.operators as O

    def body(ctx):
        params, box = doecommon.sym_parameters(ctx, n)
        g = O.PlackettBurmanGenerator(params)
        rows = g.generate()
        _pb_checks(ctx, rows, box, n)
    return body


def _pb_checks(ctx, rows, box, n):
    if True:
        runs = 4 * (n // 4 + 1)
        ctx.output('nrows', len(rows))
        ctx.check('pb-run-count-next-multiple-of-four', len(rows) != runs)
        ctx.check('pb-one-coordinate-per-factor', any(len(r) != n for r in rows))
        if len(rows) != runs or any(len(r) != n for r in rows):
            return
        bad_cells = [And(r[j] != box[j][0], r[j] != box[j][1]) for r in rows for j in range(n)]
        ctx.check('pb-uses-only-the-two-bounds', Or(*bad_cells))
        lowc = [[r[j] == box[j][0] for r in rows] for j in range(n)]
        bal = [_count(lowc[j]) != runs // 2 for j in range(n)]
        ctx.check('pb-columns-balanced', Or(*bal))
        orth = []
        for a, b in itertools.combinations(range(n), 2):
            both_low = _count([And(x, y) for x, y in zip(lowc[a], lowc[b])])
            orth.append(both_low != runs // 4)
        ctx.check('pb-columns-mutually-orthogonal', Or(*orth) if orth else False)


def box_behnken(args):
    n = args['n']
    doecommon.install()
    import artap.operators as O

    def body(ctx):
        params, box = doecommon.sym_parameters(ctx, n)
        g = O.BoxBehnkenGenerator(params)
        rows = g.generate()
        _bb_checks(ctx, rows, box, n)
    return body


def _bb_checks(ctx, rows, box, n):
    if True:
        expect = 4 * (n * (n - 1) // 2) + 1
        ctx.output('nrows', len(rows))
        ctx.check('bb-run-count', len(rows) != expect)
        ctx.check('bb-one-coordinate-per-factor', any(len(r) != n for r in rows))
        if any(len(r) != n for r in rows):
            return
        mid = [(lo + hi) / 2 for lo, hi in box]
        bad = []
        for i, j in itertools.combinations(range(n), 2):
            for si in (0, 1):
                for sj in (0, 1):
                    match = [And(r[i] == box[i][si], r[j] == box[j][sj], *[r[k] == mid[k] for k in range(n) if k not in (i, j)])
                             for r in rows]
                    bad.append(_count(match) != 1)
        ctx.check('bb-every-corner-of-every-factor-pair-once', Or(*bad))
        centre = [And(*[r[k] == mid[k] for k in range(n)]) for r in rows]
        ctx.check('bb-exactly-one-centre-run', _count(centre) != 1)


def sequence(args):
    """Several designs are generated one after the other from the SAME parameter dictionaries (what a study that
    screens first and refines later does): every generator must still obey its law, and no generator may change the
    parameter definitions it was given."""
    n, order = args['n'], args['order']
    doecommon.install()
    import artap.operators as O

    def body(ctx):
        params, box = doecommon.sym_parameters(ctx, n)
        for step, kind in enumerate(order):
            if kind == 'bb':
                g = O.BoxBehnkenGenerator(params)
                rows = g.generate()
                _bb_checks(ctx, rows, box, n)
            elif kind == 'pb':
                g = O.PlackettBurmanGenerator(params)
                rows = g.generate()
                _pb_checks(ctx, rows, box, n)
            else:
                g = O.FullFactorGenerator(params)
                g.init(kind == 'ffc')
                rows = g.generate()
                lv = [[lo, (lo + hi) / 2, hi] if kind == 'ffc' else [lo, hi] for lo, hi in box]
                _fullfact_checks(ctx, rows, lv)
            ctx.output('rows-%d-%s' % (step, kind), len(rows))
            ctx.check('generator-leaves-the-parameter-definitions-untouched(%s)' % kind,
                      any(len(p['bounds']) != 2 for p in params) or
                      Or(*[Or(ops.differs(p['bounds'][0], lo, 0.0), ops.differs(p['bounds'][1], hi, 0.0))
                           for p, (lo, hi) in zip(params, box) if len(p['bounds']) == 2]))
    return body


def gsd(args):
    levels, reduction = args['levels'], args['reduction']
    doecommon.install()
    import artap.operators as O
    import artap.doe as DOE

    def body(ctx):
        full = set(itertools.product(*[range(k) for k in levels]))
        # coded designs: every complementary count, and all r of them together
        designs = DOE.build_gsd(list(levels), reduction, n=reduction)
        ctx.check('gsd-returns-r-complementary-designs', len(designs) != reduction)
        sets = []
        for d in designs:
            rows = [tuple(int(v) for v in r) for r in d]
            ctx.check('gsd-duplicate-free', len(set(rows)) != len(rows))
            ctx.check('gsd-subset-of-full-factorial', not set(rows) <= full)
            sets.append(set(rows))
        ctx.check('gsd-complementary-designs-pairwise-disjoint',
                  any(a & b for a, b in itertools.combinations(sets, 2)))
        ctx.check('gsd-complementary-designs-cover-full-factorial', set().union(*sets) != full)
        for cnt in range(1, reduction + 1):
            part = DOE.build_gsd(list(levels), reduction, n=cnt)
            part = [part] if cnt == 1 else list(part)
            ctx.check('gsd-count-%d-is-a-prefix-of-the-complementary-family' % cnt,
                      len(part) != cnt or any(not np.array_equal(p, q) for p, q in zip(part, designs)))
        # value mapping through the generator, symbolic pairwise distinct level values
        params, box = doecommon.sym_parameters(ctx, len(levels))
        vals = [_levels(ctx, 'f%d' % j, k) for j, k in enumerate(levels)]
        g = O.GSDGenerator(params)
        g.init([list(v) for v in vals], reduction)
        rows = g.generate()
        ctx.output('nrows', len(rows))
        ctx.check('gsd-generator-row-count', len(rows) != len(designs[0]))
        dup = [And(*[a == b for a, b in zip(r1, r2)]) for r1, r2 in itertools.combinations(rows, 2)]
        ctx.check('gsd-generator-duplicate-free', Or(*dup) if dup else False)
        notin = [Or(*[Not(Or(*[r[j] == v for v in vals[j]])) for j in range(len(levels))]) for r in rows]
        ctx.check('gsd-generator-rows-use-supplied-levels', Or(*notin))
        # all complementary designs through the generator
        # the SAME generator object is initialised again (single design first, now the whole complementary family)
        g2 = g
        g2.init([list(v) for v in vals], reduction, reduction)
        fam = g2.generate()
        ctx.check('gsd-generator-complementary-family-size', len(fam) != reduction)
        allrows = [r for d in fam for r in d]
        ctx.check('gsd-generator-family-has-full-factorial-size', len(allrows) != len(full))
        for combo in (list(full)[:6] + list(full)[-6:]):
            eq = [And(*[r[j] == vals[j][combo[j]] for j in range(len(levels))]) for r in allrows]
            ctx.check('gsd-generator-family-covers-each-combination-once', _count(eq) != 1)
    return body


def configs(tier):
    Q = tier == 'quick'
    out = []
    ve = {'validate': 3}
    for n in ((1, 2, 3) if Q else (1, 2, 3, 4)):
        for center in (False, True):
            out.append({'name': 'fullfact-n%d%s' % (n, '-center' if center else ''), 'task': 'fullfact', 'args': {'n': n, 'center': center},
                        'weight': (3 if center else 2) ** n, 'engine': ve})
    for counts in ([[2, 3], [3, 2, 2], [4, 3], [130, 2]] if Q else [[2, 3], [3, 2, 2], [4, 3], [4, 4], [3, 4, 2, 2], [2, 2, 2, 2], [130, 2], [2, 300], [260, 3]]):
        out.append({'name': 'fullfact-levels-%s' % 'x'.join(map(str, counts)), 'task': 'fullfact_levels', 'args': {'counts': counts},
                    'weight': math.prod(counts), 'engine': ve})
    for n in range(1, 24):
        out.append({'name': 'pb-n%d' % n, 'task': 'plackett_burman', 'args': {'n': n}, 'weight': n, 'engine': ve})
    for n in ((3, 4, 5) if Q else (3, 4, 5, 6, 7)):
        out.append({'name': 'bb-n%d' % n, 'task': 'box_behnken', 'args': {'n': n}, 'weight': n ** 3, 'engine': ve})
    for order in ((('bb', 'ff', 'pb'), ('pb', 'bb', 'ffc'), ('ffc', 'bb', 'bb')) if Q else
                  (('bb', 'ff', 'pb'), ('pb', 'bb', 'ffc'), ('ffc', 'bb', 'bb'), ('ff', 'pb', 'bb'), ('bb', 'pb', 'bb', 'ff'))):
        out.append({'name': 'sequence-n3-%s' % '-'.join(order), 'task': 'sequence', 'args': {'n': 3, 'order': list(order)},
                    'weight': 30, 'engine': ve})
    g = [([3, 4], 2), ([2, 3, 4], 2), ([3, 3, 3], 3), ([4, 4], 2), ([3, 4], 3),
         ([2, 3], 3), ([2, 4, 5], 3)]     # reduction larger than the level count of a factor (empty partitions)
    if not Q:
        g += [([3, 4, 6], 2), ([3, 4, 6], 3), ([4, 4, 4], 4), ([5, 5], 2), ([3, 3, 3, 3], 3), ([4, 5], 4), ([3, 2, 6], 4), ([2, 5], 4), ([2, 2, 3], 3)]
    for levels, red in g:
        out.append({'name': 'gsd-%s-r%d' % ('x'.join(map(str, levels)), red), 'task': 'gsd', 'args': {'levels': levels, 'reduction': red},
                    'weight': math.prod(levels), 'engine': ve})
    return out
