"""C09 -- runs keep exact generation bookkeeping, budget and generational elitism.

Whole-run symbolic exploration is out of reach (an NSGA-II run with N=2, G=2 exceeds 2*10^4
paths), so the property is decomposed:
 1. NSGA-II generation step: the body of the generation loop of NSGAII.run is cut out of the
    AST of the CURRENT source and executed from an arbitrary evaluated parent population
    (symbolic costs, concrete pairwise-distinct designs so that the real set()/hash
    de-duplication runs); self.generate is replaced by its contract (N fresh distinct
    designs, established by part 2).  Real evaluate / sorter / crowding / truncation.
 2. GeneticAlgorithm.generate: real duplicate rejection and tournament selection; crossover
    and mutation replaced by arbitrary in-box children (any child is one).  while-loop
    unwound 3 times, longer paths cut and counted.
 3. Selector.pop_acceptance (epsilon-MOEA steady-state replacement), all cases.
 4. Run skeletons: the real run() of NSGA-II / epsilon-MOEA / OMOPSO / SMPSO with a concrete
    objective and seeded randomness, every placement of <=2 transient evaluation failures as
    solver choices: evaluation budget, generation tags, population sizes, and the provenance
    of every evaluated vector (composition glue for C08).  These paths carry no solver
    decision beyond the fault placement and are labelled as such.
"""
import ast
import inspect
import os
import random as _random
import textwrap

from symx import core, ops, stubs
from symx.ops import And, Or, Not, Implies
from . import common, evalcommon as ec
from .common import dominates

PROPERTY = 'C09'

META = {
    'bounds': {'quick': 'constrained step N=2; variation contract dim 1 (list/ndarray); step: N=2 parents, m<=2 objectives, offspring designs fresh or repeating a parent; generate: N in {2,3}; '
                        'pop_acceptance: n<=3, m<=2; skeletons N in {2,3}, G in {1,2}, <=1 injected transient failure',
               'thorough': 'variation contract dim<=2; step: N=3,m=1 and N=2,m=2 with constraints; pop_acceptance n<=4; skeletons G<=3, <=2 failures'},
    'stubs': ['self.generate in the step harness -> N fresh pairwise distinct unevaluated designs (contract proved in part 2)',
              'crossover.cross / mutator.mutate in the generate harness -> arbitrary in-box vectors',
              'random.sample / random.choice -> symbolic indices', 'objective: uninterpreted (parts 1-3); concrete values + symbolic fault placement (part 4)',
              'comparators through summaries'],
    'assumptions': ['termination of GeneticAlgorithm.generate is not claimed (paths needing more than 3 loop iterations are cut)',
                    'N>3, G>3 outside; PSOGA (N+2 evaluations per generation) is not in the statement',
                    'part 4 uses one seeded random stream per configuration: it is composition glue, not a proof over seeds'],
}


def preload():
    common.preload_all()


# ---------------------------------------------------------------------------- part 1
def _extract_step():
    import artap.algorithm_NSGAII as NS
    src = textwrap.dedent(inspect.getsource(NS.NSGAII.run))
    fn = ast.parse(src).body[0]
    loops = [s for s in fn.body if isinstance(s, ast.For) and 'generate' in ast.dump(s) and 'nondominated_truncate' in ast.dump(s)]
    if len(loops) != 1 or not isinstance(loops[0].target, ast.Name):
        raise core.Unsupported('cannot locate the generation loop of NSGAII.run')
    loop = loops[0]
    new = ast.FunctionDef(name='_nsga2_step',
                          args=ast.arguments(posonlyargs=[], args=[ast.arg(arg='self'), ast.arg(arg='individuals'), ast.arg(arg=loop.target.id)],
                                             kwonlyargs=[], kw_defaults=[], defaults=[]),
                          body=loop.body + [ast.Return(value=ast.Name(id='individuals', ctx=ast.Load()))], decorator_list=[], type_params=[])
    mod = ast.Module(body=[new], type_ignores=[])
    ast.fix_missing_locations(mod)
    ns = dict(NS.__dict__)
    exec(compile(mod, NS.__file__ + '#NSGAII.run-generation-loop-body', 'exec'), ns)
    return ns['_nsga2_step']


def nsga2_step(args):
    N, m, ncon, repeats = args['N'], args['m'], args.get('ncon', 0), args.get('repeats', ())
    import artap.algorithm_NSGAII as NS
    import artap.operators as O
    st = common.install_comparator_summaries([m + 1])
    step = _extract_step()
    prob = ec.make_problem(1, tuple(['minimize', 'maximize'][:m]), ncon, bounds=[(0.0, 100.0)])
    alg = NS.NSGAII(prob)
    alg.options['max_population_size'] = N
    alg.selector = O.TournamentSelector(prob.parameters)
    box = {}

    def contract_generate(parents, archive=None):
        out = []
        for j in range(N):
            if j in repeats:     # offspring that repeats the design of parent `repeats[j]`
                v = [parents[repeats[j]].vector[0]]
            else:
                v = [50.0 + j]
            out.append(NS.IndividualNSGAII(v))
        box['offspring'] = list(out)
        return out

    alg.generate = contract_generate

    faults = args.get('faults', 0)
    if faults:
        # the re-roll after a transient failure is replaced by its contract (a fresh in-box design,
        # established by C06/C08) with CONCRETE coordinates, so that the real set()/hash path still runs
        import artap.job as JOB

        class _Reroll(object):
            n = 0

            @classmethod
            def gen_vector(cls, parameters):
                cls.n += 1
                return [70.0 + cls.n]
        stubs.install((JOB, 'VectorAndNumbers', _Reroll))
        box['reroll'] = _Reroll

    def body(ctx):
        # rounding of the signed costs is irrelevant here (C05 checks it): np.round is a plain uninterpreted function
        ops.configure(round_grid=False, round_lemmas=False)
        # should the code key a dict/set on cost values: every symbolic number hashes alike, so that Python falls
        # back to == (which forks symbolically).  Sound here because every cost in this harness is symbolic.
        ctx.hash_hook = lambda x: 0
        ec.reset_problem(prob, ctx, faults=bool(faults), max_faults=faults)
        if faults:
            box['reroll'].n = 0
        prob.h.fault_kinds = 3            # transient failures only (ok / TimeoutError / RuntimeError)
        # the pre-state is produced by the real evaluation path (so that whatever Job.evaluate leaves in the
        # individuals after a retried failure is part of it); costs are arbitrary (uninterpreted objective)
        # discrete parameters (integer type, coarse precision): the FIRST generation may repeat a design -- 'parent_vectors'
        # lets two parents share one; every later generation must be free of repeats all the same
        pv = args.get('parent_vectors') or [float(i) for i in range(N)]
        parents = [NS.IndividualNSGAII([float(v)]) for v in pv]
        alg.evaluate(parents)
        for p in parents:
            ctx.check('parents-evaluated', p.state != p.State.EVALUATED)
        n0 = len([c for c in prob.h.calls if c[2] == 'ok'])
        rec0 = len(prob.individuals)
        itc = args.get('it', 0)
        survivors = step(alg, list(parents), itc)
        calls = [c for c in prob.h.calls if c[2] == 'ok'][n0:]
        offspring = box['offspring']
        ctx.output('n_survivors', len(survivors))
        ctx.check('exactly-N-objective-evaluations-per-generation', len(calls) != N)
        recorded = prob.individuals[rec0:]
        ctx.check('exactly-N-individuals-recorded', len(recorded) != N)
        ctx.check('recorded-with-tag-it+2', any(r.population_id != itc + 2 for r in recorded))
        ctx.check('recorded-are-the-survivors', [id(r) for r in recorded] != [id(s) for s in survivors])
        ctx.check('no-design-twice-in-a-generation',
                  any(bool(a == b) for i, a in enumerate(survivors) for b in survivors[i + 1:]))
        ctx.check('survivors-are-evaluated', any(len(s.costs_signed) != m + 1 for s in survivors))
        dropped = [c for c in offspring + parents if not any(bool(c == s) for s in survivors)]
        ctx.check('no-survivor-dominated-by-a-dropped-candidate',
                  Or(*[dominates(c.costs_signed, s.costs_signed) for s in survivors for c in dropped]))
        if m == 1 and ncon == 0:
            best_new = ops.smin([s.costs_signed[0] for s in survivors])
            best_old = ops.smin([p.costs_signed[0] for p in parents])
            ctx.check('best-cost-never-gets-worse', best_new > best_old)
    return common.merge_stats(body, st)


def nsga2_run(args):
    """Whole NSGAII.run() for G generations with a symbolic (uninterpreted) objective: the prologue
    (generator, first evaluation, first sort) and G-1 real loop iterations.  No AST surgery: this
    configuration also works when run() is refactored.  self.generate is replaced by its contract."""
    N, m, G, faults = args['N'], args['m'], args['G'], args.get('faults', 0)
    import artap.algorithm_NSGAII as NS
    import artap.operators as O
    st = common.install_comparator_summaries([m + 1])
    prob = ec.make_problem(1, tuple(['minimize', 'maximize'][:m]), 0, bounds=[(0.0, 1000.0)])
    box = {}
    if faults:
        import artap.job as JOB

        class _Reroll(object):
            n = 0

            @classmethod
            def gen_vector(cls, parameters):
                cls.n += 1
                return [700.0 + cls.n]
        stubs.install((JOB, 'VectorAndNumbers', _Reroll))
        box['reroll'] = _Reroll

    class Gen(object):
        def generate(self):
            return [[float(i)] for i in range(N)]

    def body(ctx):
        ops.configure(round_grid=False, round_lemmas=False)
        ctx.hash_hook = lambda x: 0
        ec.reset_problem(prob, ctx, faults=bool(faults), max_faults=faults)
        prob.h.fault_kinds = 3
        if faults:
            box['reroll'].n = 0
        alg = NS.NSGAII(prob)
        alg.options['max_population_size'] = N
        alg.options['max_population_number'] = G
        alg.generator = Gen()
        box['offspring'] = []

        def contract_generate(parents, archive=None):
            k = len(box['offspring'])
            out = [NS.IndividualNSGAII([100.0 * (k + 1) + j]) for j in range(N)]
            box['offspring'].append(list(out))
            return out
        alg.generate = contract_generate
        alg.run()
        ok = prob.h.ok_calls()
        pops = prob.populations()
        ctx.output('tags', sorted(pops))
        ctx.check('budget-N*G-successful-evaluations', len(ok) != N * G)
        ctx.check('generations-1..G', sorted(pops) != list(range(1, G + 1)))
        ctx.check('N-designs-per-generation', any(len(v) != N for v in pops.values()))
        if sorted(pops) != list(range(1, G + 1)) or any(len(v) != N for v in pops.values()):
            return
        for g in range(2, G + 1):
            cur, prev = pops[g], pops[g - 1]
            ctx.check('no-design-twice-in-a-generation', any(bool(a == b) for i, a in enumerate(cur) for b in cur[i + 1:]))
            cands = prev + (box['offspring'][g - 2] if len(box['offspring']) >= g - 1 else [])
            dropped = [c for c in cands if not any(bool(c == s_) for s_ in cur)]
            ctx.check('no-survivor-dominated-by-a-dropped-candidate',
                      Or(*[dominates(c.costs_signed, s_.costs_signed) for s_ in cur for c in dropped
                           if len(c.costs_signed) == m + 1 and len(s_.costs_signed) == m + 1]))
            if m == 1:
                ctx.check('best-cost-never-gets-worse',
                          ops.smin([s_.costs_signed[0] for s_ in cur]) > ops.smin([p_.costs_signed[0] for p_ in prev]))
    return common.merge_stats(body, st)


# ---------------------------------------------------------------------------- part 2
UNWIND = 3


def generate(args):
    N, with_archive, m = args['N'], args['archive'], 1
    import artap.algorithm_genetic as GA
    import artap.operators as O
    from artap.archive import Archive
    import artap.archive as AR
    st = common.install_comparator_summaries([m + 1])
    stubs.install((O, 'random', stubs.random_shim), (AR, 'choice', stubs.s_choice), (AR, 'sample', stubs.s_sample))
    prob = ec.make_problem(1, ('minimize',), 0, bounds=[(0.0, 1.0)])
    alg = GA.GeneticAlgorithm(prob)
    alg.options['max_population_size'] = N
    alg.selector = O.TournamentSelector(prob.parameters)
    box = {}

    class Cross(object):
        def cross(self, v1, v2):
            c = box['ctx']
            box['iters'] += 1
            if box['iters'] > UNWIND:
                c.cut('generate-unwind>%d' % UNWIND)
            return [c.real('child', 0.0, 1.0)], [c.real('child', 0.0, 1.0)]

    class Mut(object):
        def mutate(self, v, other=None):
            return list(v)

    alg.crossover, alg.mutator = Cross(), Mut()
    import artap.individual as IND
    stubs.install((IND, 'max', ops.smax))   # ite instead of a fork inside __eq__ (semantics preserving)

    class Sel(object):
        # which parent is selected cannot influence the contract stubs above (the children are
        # arbitrary in-box vectors); tournament selection itself is the subject of C03
        def select(self, parents):
            return parents[0]

    alg.selector = Sel()

    def body(ctx):
        from artap.individual import Individual
        Individual.counter = 0
        box.update(ctx=ctx, iters=0)
        parents = []
        for i in range(2):
            pv = ctx.real('parent%d' % i, 0.0, 1.0)
            if args.get('container') == 'ndarray':
                import numpy as np
                p = Individual(np.array([pv], dtype=object if ctx.symbolic else float))
            else:
                p = Individual([pv])
            box.setdefault('orig', {})[i] = pv
            p.costs_signed = common.sym_costs(ctx, 'p%d' % i, m, 'bool')
            p.features['front_number'] = ctx.int('front%d' % i, 1, 2)
            parents.append(p)
        arch = None
        if with_archive:
            arch = Archive()
            arch._contents = list(parents)
        off = alg.generate(parents, archive=arch)
        ctx.output('n', len(off))
        ctx.check('generate-returns-exactly-N-offspring', len(off) != N)
        eqs = [bool(a == b) for i, a in enumerate(off) for b in off[i + 1:]]
        ctx.check('offspring-pairwise-distinct-designs', any(eqs))
        ctx.check('offspring-are-new-unevaluated-individuals', any(o.state != o.State.EMPTY or any(o is p for p in parents) for o in off))
        ctx.check('offspring-in-box', Or(*[Or(o.vector[0] < 0.0, o.vector[0] > 1.0) for o in off]))
        ctx.check('generate-leaves-the-parent-designs-untouched',
                  Or(*[ops.differs(p.vector[0], box['orig'][i], 0.0) for i, p in enumerate(parents)]) or
                  any(o.vector is p.vector for o in off for p in parents))
    return common.merge_stats(body, st)


def variation_contract(args):
    """The inductive step and the whole-run configurations replace self.generate by its contract: N NEW individuals,
    the parent population left as it was.  generate() itself is checked with stubbed operators (task `generate`);
    here the REAL SimulatedBinaryCrossover.cross / PmMutator.mutate run on design vectors given as lists or numpy
    arrays, and the part of the contract that generate() relies on is checked: the operators do not write into their
    arguments and do not return objects that share memory with them (otherwise a recorded, evaluated design
    silently changes while its costs stay -- elitism is then void)."""
    dim, container, real = args['dim'], args['container'], args['real']
    import artap.operators as O
    stubs.install((O, 'random', stubs.random_shim), (O, 'math', stubs.math_shim), (O, 'float', ops.sfloat),
                  (O, 'np', stubs.numpy_shim), (O, 'max', ops.smax), (O, 'min', ops.smin))
    params = [{'name': 'x%d' % d, 'bounds': [0.0, 1.0]} for d in range(dim)]

    def body(ctx):
        import numpy as np

        def mk(name):
            v = [ctx.real('%s_%d' % (name, d), 0.0, 1.0) for d in range(dim)]
            return v, (np.array(v, dtype=object if ctx.symbolic else float) if container == 'ndarray' else list(v))

        def shares(a, b):
            return a is b or (isinstance(a, np.ndarray) and isinstance(b, np.ndarray) and np.shares_memory(a, b))
        o1, P1 = mk('p')
        o2, P2 = mk('q')
        if real == 'sbx':
            op = O.SimulatedBinaryCrossover(params, ctx.real('pc', 0, 1), 15)
            res = list(op.cross(P1, P2))
            args_ = [(P1, o1), (P2, o2)]
        else:
            op = O.PmMutator(params, ctx.real('pm', 0, 1), 20)
            res = [op.mutate(P1), op.mutate(P1)]
            args_ = [(P1, o1)]
        ctx.output('n', len(res))
        ctx.check('operator-leaves-its-arguments-untouched',
                  Or(*[ops.differs(a, b, 0.0) for P, o in args_ for a, b in zip(list(P), o)]))
        ctx.check('results-share-no-memory-with-the-arguments', any(shares(r, P) for r in res for P, _o in args_))
        ctx.check('results-share-no-memory-with-each-other', shares(res[0], res[1]))
    return body


# ---------------------------------------------------------------------------- part 3
def pop_acceptance(args):
    n, m = args['n'], args['m']
    import artap.operators as O
    from artap.individual import Individual
    st = common.install_comparator_summaries([m + 1])
    stubs.install((O, 'random', stubs.random_shim))
    sel = O.TournamentSelector([{'name': 'x', 'bounds': [0.0, 1.0]}])

    def body(ctx):
        Individual.counter = 0
        pop = []
        for i in range(n):
            ind = Individual([float(i)])
            ind.costs_signed = common.sym_costs(ctx, 'i%d' % i, m, 'bool')
            pop.append(ind)
        x = Individual([77.0])
        x.costs_signed = common.sym_costs(ctx, 'x', m, 'bool')
        before = list(pop)
        sel.pop_acceptance(pop, x)
        ctx.output('after', [p.id for p in pop])
        ctx.check('working-population-keeps-its-size', len(pop) != n)
        removed = [b for b in before if not any(b is p for p in pop)]
        inserted = any(p is x for p in pop)
        dom_any = Or(*[dominates(x.costs_signed, b.costs_signed) for b in before])
        dominated = Or(*[dominates(b.costs_signed, x.costs_signed) for b in before])
        ctx.check('at-most-one-member-replaced', len(removed) > 1 or (len(removed) == 1) != inserted)
        ctx.check('population-is-old-members-minus-removed-plus-offspring',
                  sorted(p.id for p in pop) != sorted([b.id for b in before if not any(b is r for r in removed)] + ([x.id] if inserted else [])))
        # offspring dominates members -> it replaces one of the members it dominates
        ctx.check('dominating-offspring-is-accepted', And(dom_any, not inserted))
        if removed:
            ctx.check('dominating-offspring-replaces-a-dominated-member',
                      And(dom_any, Not(dominates(x.costs_signed, removed[0].costs_signed))))
        # dominated without dominating any -> rejected
        ctx.check('dominated-offspring-is-rejected', And(dominated, Not(dom_any), inserted))
        # otherwise one arbitrary member is replaced
        ctx.check('incomparable-offspring-replaces-one-member', And(Not(dominated), Not(dom_any), not inserted))
    return common.merge_stats(body, st)


# ---------------------------------------------------------------------------- part 4
class _SkeletonProblem(object):
    pass


def skeleton(args):
    kind, N, G, maxf = args['algo'], args['N'], args['G'], args['max_faults']
    import artap.algorithm_NSGAII as NS
    import artap.algorithm_genetic as GA
    import artap.algorithm_swarm as SW
    import artap.utils as U
    from artap.problem import Problem
    seed = int(os.environ.get('VERIF_SEED', '0') or 0) * 1000 + N * 10 + G
    box = {}
    BOUNDS = [(-1.5, 2.0), (0.25, 0.75)]

    class P(Problem):
        def set(self, **kw):
            self.name = 'skeleton'
            self.parameters = [{'name': 'x%d' % i, 'bounds': list(b)} for i, b in enumerate(BOUNDS)]
            self.costs = [{'name': 'f0', 'criteria': 'minimize'}, {'name': 'f1', 'criteria': 'minimize'}]

        def evaluate(self, individual):
            ctx = box['ctx']
            j = len(box['calls'])
            fault = 0
            if box['nfault'] < maxf:
                fault = ctx.choice('fault_call%d' % j, 3)
            box['calls'].append((list(individual.vector), fault))
            if fault:
                box['nfault'] += 1
                raise (TimeoutError if fault == 1 else RuntimeError)('injected')
            x = individual.vector
            return [(x[0] - 0.3) ** 2 + x[1], (x[0] + 0.5) ** 2 + (1 - x[1])]

    prob = P()
    cls = {'nsga2': NS.NSGAII, 'epsmoea': GA.EpsMOEA, 'omopso': SW.OMOPSO, 'smpso': SW.SMPSO, 'psoga': SW.PSOGA}[kind]
    only_containment = args.get('only_containment', False)

    def body(ctx):
        from artap.individual import Individual
        from artap.surrogate import SurrogateModelEval
        Individual.counter = 0
        _random.seed(seed)
        box.update(ctx=ctx, calls=[], nfault=0)
        prob.individuals, prob.failed = [], []
        prob.surrogate = SurrogateModelEval(prob)
        alg = cls(prob)
        alg.options['max_population_size'] = N
        alg.options['max_population_number'] = G
        if kind in ('omopso', 'smpso', 'psoga'):
            alg.n = N
        alg.run()
        ok = [c for c in box['calls'] if c[1] == 0]
        pops = prob.populations()
        ctx.output('successful_evaluations', len(ok))
        ctx.output('tags', sorted(pops))
        if only_containment:
            bad = [v for v, f in box['calls'] if any(x < lo - 0.5e-12 or x > hi + 0.5e-12 for x, (lo, hi) in zip(v, BOUNDS))]
            ctx.check('every-evaluated-design-inside-the-box', len(bad) > 0)
            ctx.check('run-evaluated-something', len(ok) < N)
            return
        if kind == 'nsga2':
            ctx.check('budget-N*G-successful-evaluations', len(ok) != N * G)
            ctx.check('generations-1..G', sorted(pops) != list(range(1, G + 1)))
        else:
            ctx.check('budget-N*(G+1)-successful-evaluations', len(ok) != N * (G + 1))
            ctx.check('generations-0..G', sorted(pops) != list(range(0, G + 1)))
        ctx.check('N-designs-per-generation', any(len(v) != N for v in pops.values()))
        if kind == 'nsga2':
            for tag, inds in pops.items():
                if tag >= 2:
                    ds = [tuple(i.vector) for i in inds]
                    ctx.check('no-design-repeated-within-a-generation', len(set(ds)) != len(ds))
        ctx.check('failed-list-matches-injected-failures', len(prob.failed) != box['nfault'])
        # provenance / containment of everything handed to the objective (glue for C08)
        bad = [v for v, f in box['calls'] if any(x < lo - 0.5e-12 or x > hi + 0.5e-12 for x, (lo, hi) in zip(v, BOUNDS))]
        ctx.check('every-evaluated-design-inside-the-box', len(bad) > 0)
        ctx.check('recorded-individuals-carry-their-costs', any(len(i.costs) != 2 or len(i.costs_signed) != 3 for i in prob.individuals))
    return body


def configs(tier):
    Q = tier == 'quick'
    out = []
    ve = {'validate': 15}

    def step(N, m, ncon=0, repeats=(), split=None, it=0, faults=0):
        out.append({'name': 'step-N%d-m%d-con%d%s-it%d%s' % (N, m, ncon, '-rep' + ''.join('%d%d' % kv for kv in sorted(dict(repeats).items())) if repeats else '', it, '-faults%d' % faults if faults else ''),
                    'task': 'nsga2_step', 'args': {'N': N, 'm': m, 'ncon': ncon, 'repeats': dict(repeats), 'it': it, 'faults': faults},
                    'weight': 80 ** m * (10 if N >= 3 else 1), 'split': split, 'engine': ve})
    step(2, 1)
    out.append({'name': 'step-N3-m1-first-generation-repeats-a-design', 'task': 'nsga2_step',
                'args': {'N': 3, 'm': 1, 'ncon': 0, 'repeats': {}, 'it': 0, 'faults': 0, 'parent_vectors': [0.0, 0.0, 1.0]},
                'weight': 800, 'split': 32, 'engine': ve})
    out.append({'name': 'step-N2-m2-first-generation-repeats-a-design', 'task': 'nsga2_step',
                'args': {'N': 2, 'm': 2, 'ncon': 0, 'repeats': {}, 'it': 0, 'faults': 0, 'parent_vectors': [4.0, 4.0]},
                'weight': 800, 'split': 32, 'engine': ve})
    step(2, 1, repeats=((1, 0),), it=3)
    step(2, 1, faults=1, split=48)
    step(2, 2, split=64)
    step(2, 1, ncon=1, split=32)          # inequality constraints: the feasibility marker takes part in the ranking
    if not Q:
        step(2, 2, repeats=((0, 1),), split=64)
        step(2, 2, ncon=1, split=96)
        step(3, 1, split=96)
    for N, m, G, F in ((2, 1, 2, 0), (2, 1, 3, 0), (2, 1, 2, 1)) if Q else ((2, 1, 2, 0), (2, 1, 3, 0), (2, 1, 2, 1), (2, 2, 2, 0), (3, 1, 2, 0)):
        out.append({'name': 'run-symbolic-N%d-m%d-G%d%s' % (N, m, G, '-faults%d' % F if F else ''), 'task': 'nsga2_run',
                    'args': {'N': N, 'm': m, 'G': G, 'faults': F}, 'weight': 400 * G * (10 if m > 1 or N > 2 else 1), 'split': 64, 'engine': ve})
    for N in (2, 3):
        for arch in (False, True):
            out.append({'name': 'generate-N%d%s' % (N, '-archive' if arch else ''), 'task': 'generate',
                        'args': {'N': N, 'archive': arch, 'container': 'ndarray' if (N == 3 and not arch) else 'list'},
                        'weight': 30 ** N, 'split': 48, 'allowed_cuts': ['generate-unwind>%d' % UNWIND], 'engine': ve})
    for container in ('list', 'ndarray'):
        for real, dim in ((('sbx', 1), ('pm', 1)) if Q else (('sbx', 1), ('sbx', 2), ('pm', 1), ('pm', 2))):
            out.append({'name': 'variation-contract-%s-%s-d%d' % (real, container, dim), 'task': 'variation_contract',
                        'args': {'dim': dim, 'container': container, 'real': real}, 'weight': 150 ** dim,
                        'engine': {'mode': 'havoc', 'domain_checks': False, 'validate': 10}})
    for n, m in ((1, 1), (2, 2), (3, 1), (3, 2)) if Q else ((1, 1), (2, 2), (3, 1), (3, 2), (4, 1), (4, 2)):
        out.append({'name': 'pop-acceptance-n%d-m%d' % (n, m), 'task': 'pop_acceptance', 'args': {'n': n, 'm': m}, 'weight': 9 ** n,
                    'split': 32 if n >= 3 else None, 'engine': ve})
    for algo in ('nsga2', 'epsmoea', 'omopso', 'smpso'):
        for N, G, F in ((2, 1, 1), (3, 2, 1)) if Q else ((2, 1, 1), (3, 2, 1), (2, 3, 2), (3, 3, 1)):
            out.append({'name': 'skeleton-%s-N%d-G%d-f%d' % (algo, N, G, F), 'task': 'skeleton',
                        'args': {'algo': algo, 'N': N, 'G': G, 'max_faults': F}, 'weight': (N * G) ** F, 'split': 24 if F > 1 else None,
                        'engine': {'validate': 0, 'path_timeout_s': 60}})
    return out
