"""Helpers shared by the harness modules."""
import z3

from symx import core, ops, stubs
from symx.ops import And, Or, Not, ite, Implies


def preload_all():
    import artap.operators  # noqa
    import artap.archive  # noqa
    import artap.algorithm  # noqa
    import artap.algorithm_genetic  # noqa
    import artap.algorithm_NSGAII  # noqa
    import artap.algorithm_swarm  # noqa
    import artap.algorithm_sweep  # noqa
    import artap.problem  # noqa
    import artap.individual  # noqa
    import artap.job  # noqa
    import artap.utils  # noqa
    import artap.surrogate  # noqa
    import artap.results  # noqa
    import artap.quality_indicator  # noqa
    import artap.datastore  # noqa
    import artap.doe  # noqa


def textbook(p, q):
    """Textbook constrained dominance on signed-cost vectors (last entry = marker):
    1 = p dominates, 2 = q dominates, 0 = neither.  Independent of the code under test;
    polymorphic (solver terms or floats)."""
    pm, qm = abs(p[-1]), abs(q[-1])
    obj = list(zip(p[:-1], q[:-1]))
    pdom = And(And(*[a <= b for a, b in obj]), Or(*[a < b for a, b in obj]))
    qdom = And(And(*[a >= b for a, b in obj]), Or(*[a > b for a, b in obj]))
    par = ite(pdom, 1, ite(qdom, 2, 0))
    return ite(pm < qm, 1, ite(qm < pm, 2, par))


def dominates(p, q):
    return textbook(p, q) == 1


def merge_stats(body, stats_list):
    agg = core.Stats()
    for s in stats_list:
        for f in core.Stats.FIELDS:
            if f == 'max_query':
                agg.max_query = max(agg.max_query, s.max_query)
            else:
                setattr(agg, f, getattr(agg, f) + getattr(s, f))
    prev = getattr(body, 'pre_stats', None)
    d = agg.as_dict()
    if prev:
        for f, v in prev.items():
            d[f] = max(d[f], v) if f == 'max_query' else d[f] + v
    body.pre_stats = d
    return body


_ORIG = {}


def install_comparator_summaries(lengths, eps_lists=()):
    """Replace ParetoDominance.compare (and optionally EpsilonDominance.compare for the
    given concrete epsilon lists) by wrappers that return the ite-term summary of the
    real method when called with proxies and call the real method otherwise.  The
    summaries are rebuilt from the current source on every run.  `lengths` are the
    lengths of the signed-cost vectors (objectives + marker)."""
    import artap.operators as O
    stubs.install((O, 'float', ops.sfloat), (O, 'math', stubs.math_shim), (O, 'np', stubs.numpy_shim))
    if 'pareto' not in _ORIG:
        _ORIG['pareto'] = O.ParetoDominance.compare
        _ORIG['eps'] = O.EpsilonDominance.compare
    real_p, real_e = _ORIG['pareto'], _ORIG['eps']
    stats = []
    par_sum = {}
    probe = O.ParetoDominance()
    for L in lengths:
        s, st = core.summarize('pareto%d' % L, lambda *a, L=L: real_p(probe, list(a[:L]), list(a[L:])), 2 * L)
        par_sum[L] = s
        stats.append(st)

    def _arrays(p, q):
        # the summaries stand for the method applied to LISTS (slices are copies); numpy arrays (slices are views)
        # always go through the real method so that writes into the arguments are seen
        import numpy
        return isinstance(p, numpy.ndarray) or isinstance(q, numpy.ndarray)

    def pareto_compare(self, p, q):
        if _arrays(p, q):
            return real_p(self, p, q)
        if core.cur() is not None and core.cur().symbolic and (core.any_sym(p) or core.any_sym(q)):
            s = par_sum.get(len(p))
            if s is not None and len(p) == len(q):
                return s.apply(list(p) + list(q))
        return real_p(self, p, q)

    O.ParetoDominance.compare = pareto_compare

    eps_sum = {}
    for eps in eps_lists:
        for L in lengths:
            comp = O.EpsilonDominance(list(eps))
            s, st = core.summarize('eps%d' % L, lambda *a, L=L, comp=comp: real_e(comp, list(a[:L]), list(a[L:])), 2 * L)
            eps_sum[(tuple(eps), L)] = s
            stats.append(st)

    def eps_compare(self, p, q):
        if _arrays(p, q):
            return real_e(self, p, q)
        if core.cur() is not None and core.cur().symbolic and (core.any_sym(p) or core.any_sym(q)):
            try:
                key = (tuple(self.epsilons), len(p))
            except TypeError:
                key = None
            s = eps_sum.get(key)
            if s is not None and len(p) == len(q):
                return s.apply(list(p) + list(q))
        return real_e(self, p, q)

    O.EpsilonDominance.compare = eps_compare
    return stats


def sym_costs(ctx, name, m, marker='bool'):
    v = [ctx.real('%s_c%d' % (name, i)) for i in range(m)]
    if marker == 'bool':
        v.append(ctx.int('%s_mk' % name, 0, 1))
    elif marker == 'real':
        v.append(ctx.real('%s_mk' % name))
    else:
        v.append(marker)   # concrete
    return v


def fnum(x):
    """Polymorphic: is the value a finite number (not inf)."""
    return not core._is_inf(x)
