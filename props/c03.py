"""C03 -- environmental selection: rank first, then crowding, no duplicates.

Three harnesses over the real functions of artap/operators.py:
 1. crowding_distance(front): symbolic costs; list.sort forks on the proxies.  Oracle
    = closed form written with ite terms (independent of any sorting): inf iff the
    individual holds the minimum or maximum of some objective, otherwise the sum over
    objectives of (successor - predecessor) / (max - min).
 2. nondominated_truncate + nondominated_cmp: concrete designs (so that the real
    set()/hash de-duplication runs), symbolic front numbers / crowding values /
    truncation size.
 3. TournamentSelector.select with random.sample / random.choice as symbolic choices.
"""
import math

from symx import core, ops, stubs
from symx.ops import And, Or, Not, Implies, ite
from . import common

PROPERTY = 'C03'

META = {
    'bounds': {
        'quick': 'truncate populations of 6/9/13 with 1-2 symbolic members (k<=2/3); re-ranked fronts; crowding on ndarray costs n=3; crowding: n<=3,m<=2 and n=4,m=1 exact formula (no ties), n<=3,m<=2 with ties; truncate: n<=4 individuals '
                 '(incl. repeated designs), fronts in 1..3, k in 1..n+1; tournament: n<=3, m<=2',
        'thorough': 'crowding: n=4,m=2 exact formula, n=5,m=1, ties n=4,m=2; truncate n<=5; tournament n<=4',
    },
    'stubs': ['random.sample / random.choice -> symbolic indices (concretised by forking)',
              'ParetoDominance.compare through its ite summary in the tournament harness'],
    'assumptions': ['floats as reals: the crowding quotient is exact in the reals; in doubles it carries rounding error (replays compare with 1e-9)',
                    'fronts larger than the bound outside the claim',
                    'exact interior formula claimed only for fronts without tied objective values (as in the property)'],
}


def preload():
    common.preload_all()


def _mk_front(ctx, n, m, Individual):
    Individual.counter = 0
    inds = []
    for i in range(n):
        ind = Individual([float(i)])
        ind.costs_signed = [ctx.real('i%d_c%d' % (i, d)) for d in range(m)] + [0]
        inds.append(ind)
    return inds


def crowding(args):
    n, m, ties = args['n'], args['m'], args['ties']
    import artap.operators as O
    from artap.individual import Individual

    def body(ctx):
        inds = _mk_front(ctx, n, m, Individual)
        C = [[ind.costs_signed[d] for d in range(m)] for ind in inds]
        if args.get('container') == 'ndarray':
            # signed costs stored as numpy arrays (slices are views): the crowding pass must not write into them
            import numpy as np
            for ind in inds:
                ind.costs_signed = np.array(list(ind.costs_signed), dtype=object if ctx.symbolic else float)
        if not ties:
            for d in range(m):
                for i in range(n):
                    for j in range(i + 1, n):
                        ctx.assume(C[i][d] != C[j][d])
        front = list(inds)
        O.crowding_distance(front)
        cd = [ind.features.get('crowding_distance') for ind in inds]
        ctx.output('crowding', cd)
        ctx.check('same-members', sorted(x.id for x in front) != list(range(n)))
        ctx.check('stored-costs-not-modified',
                  Or(*[ops.differs(ind.costs_signed[d], C[i][d], 0.0) for i, ind in enumerate(inds) for d in range(m)]) if n else False)
        _crowding_laws(ctx, cd, C, n, m, ties, '')
        if n >= 1:
            # multi-step: the same individuals are ranked AGAIN, in another order (the swarm algorithms call
            # crowding_distance on their leaders every generation): the same laws hold for the new values, whatever the
            # features held before; without ties the values are determined, so they must be the same
            O.crowding_distance(list(reversed(front)))
            cd2 = [ind.features.get('crowding_distance') for ind in inds]
            _crowding_laws(ctx, cd2, C, n, m, ties, '(re-ranked)')
    return body


def _crowding_laws(ctx, cd, C, n, m, ties, tag):
        ctx.check('assigned' + tag, any(v is None for v in cd))
        if n == 0 or any(v is None for v in cd):
            return
        if n <= 2:
            ctx.check('small-front-all-inf' + tag, any(not core._is_inf(v) or v < 0 for v in cd))
            return
        mx = [ops.smax([C[i][d] for i in range(n)]) for d in range(m)]
        mn = [ops.smin([C[i][d] for i in range(n)]) for d in range(m)]
        if not ties:
            for i in range(n):
                extreme = Or(*[Or(C[i][d] == mx[d], C[i][d] == mn[d]) for d in range(m)])
                if core._is_inf(cd[i]):
                    ctx.check('inf-only-for-extremes' + tag, Not(extreme))
                    ctx.check('inf-positive' + tag, cd[i] < 0)
                    continue
                ctx.check('extremes-are-inf' + tag, extreme)
                exp = 0.0
                for d in range(m):
                    succ = ops.smin([ite(C[j][d] > C[i][d], C[j][d], mx[d]) for j in range(n)])
                    pred = ops.smax([ite(C[j][d] < C[i][d], C[j][d], mn[d]) for j in range(n)])
                    exp = exp + (succ - pred) / (mx[d] - mn[d])
                ctx.check('interior-formula' + tag, ops.far(cd[i], exp, 1e-9))
        else:
            for i in range(n):
                if core._is_inf(cd[i]):
                    ctx.check('inf-positive' + tag, cd[i] < 0)
                    continue
                ctx.check('nonnegative' + tag, cd[i] < 0)
                ctx.check('finite-at-most-m' + tag, cd[i] > m + 1e-9)
            for d in range(m):
                ctx.check('min-holder-inf' + tag, Not(Or(*[C[i][d] == mn[d] for i in range(n) if core._is_inf(cd[i])])))
                ctx.check('max-holder-inf' + tag, Not(Or(*[C[i][d] == mx[d] for i in range(n) if core._is_inf(cd[i])])))


def truncate(args):
    designs = args['designs']          # e.g. [0,1,1,2]: individuals 1 and 2 share a design
    n = len(designs)
    import artap.operators as O
    stubs.install((O, 'math', stubs.math_shim))
    from artap.individual import Individual

    def body(ctx):
        Individual.counter = 0
        pop = []
        large = args.get('large')
        for i, dsg in enumerate(designs):
            ind = Individual([float(dsg), 0.5])
            if large and i >= large['symbolic']:
                # LARGE population: only the first few members are symbolic, the others carry a concrete pattern (two
                # fronts, distinct finite crowding values and the two infinite extremes), so that sizes far beyond the
                # fully symbolic bound -- and truncation sizes much smaller than the population -- are reached
                ind.features['front_number'] = 1 + (i % 2)
                ind.features['crowding_distance'] = math.inf if i in (n - 1, n - 2) else 0.25 + 0.5 * i
            else:
                ind.features['front_number'] = ctx.int('front%d' % i, 1, 3)
                if ctx.bool('isinf%d' % i):
                    ind.features['crowding_distance'] = math.inf
                else:
                    ind.features['crowding_distance'] = ctx.real('crowd%d' % i, 0, None)
            pop.append(ind)
        for i in range(n):
            for j in range(i + 1, n):
                if designs[i] == designs[j]:
                    ctx.assume(pop[i].features['front_number'] == pop[j].features['front_number'])
        k = ctx.int('k', 1, n + 1) if not large else ctx.int('k', 1, large['kmax'])
        res = O.nondominated_truncate(pop, k)
        kc = ctx.concretize(k)
        ctx.output('kept', sorted(x.id for x in res))
        distinct = len(set(designs))
        ctx.check('length', len(res) != min(kc, distinct))
        ctx.check('members', any(not any(x is p for p in pop) for x in res))
        kept_designs = [x.vector[0] for x in res]
        ctx.check('each-design-once', len(set(kept_designs)) != len(kept_designs))
        dropped = [p for p in pop if p.vector[0] not in kept_designs]
        fr = lambda x: x.features['front_number']
        cr = lambda x: x.features['crowding_distance']
        ctx.check('rank-first', Or(*[fr(a) > fr(b) for a in res for b in dropped]))
        if distinct == n:
            ctx.check('crowding-second', Or(*[And(fr(a) == fr(b), _lt(cr(a), cr(b))) for a in res for b in dropped]))
    return body


def _lt(a, b):
    """a < b on extended reals (concrete inf allowed)."""
    if core._is_inf(a) and core._is_inf(b):
        return a < b
    return a < b


class _SampleLog(object):
    def __init__(self):
        self.last = None

    def sample(self, pop, k):
        r = stubs.s_sample(pop, k)
        self.last = list(r)
        return r


def tournament(args):
    n, m = args['n'], args['m']
    import artap.operators as O
    from artap.individual import Individual
    st = common.install_comparator_summaries([m + 1])
    log = _SampleLog()
    stubs.install((O, 'random', stubs.Shim(stubs._random, random=stubs.s_random, uniform=stubs.s_uniform,
                                           sample=log.sample, choice=stubs.s_choice)))
    sel = O.TournamentSelector([{'name': 'x', 'bounds': [0.0, 1.0]}])

    def body(ctx):
        Individual.counter = 0
        log.last = None
        pop = []
        for i in range(n):
            ind = Individual([float(i)])
            ind.costs_signed = common.sym_costs(ctx, 'i%d' % i, m, 'bool')
            ind.features['front_number'] = ctx.int('front%d' % i, 1, 3)
            pop.append(ind)
        w = sel.select(pop)
        ctx.output('winner', w.id)
        ctx.check('member', not any(w is p for p in pop))
        if n == 1:
            ctx.check('single', w is not pop[0])
            return
        ctx.check('sampled-two', log.last is None or len(log.last) != 2 or log.last[0] is log.last[1])
        a, b = log.last
        ctx.check('winner-is-a-candidate', not (w is a or w is b))
        other = b if w is a else a
        fw, fo = w.features['front_number'], other.features['front_number']
        ctx.check('never-worse-front', fw > fo)
        ctx.check('never-dominated-at-equal-front',
                  And(fw == fo, common.dominates(other.costs_signed, w.costs_signed)))
    return common.merge_stats(body, st)


def configs(tier):
    out = []

    def crowd(n, m, ties, split=None, container=None, **eng):
        out.append({'name': 'crowd-n%d-m%d-%s%s' % (n, m, 'ties' if ties else 'noties', '-' + container if container else ''), 'task': 'crowding',
                    'args': {'n': n, 'm': m, 'ties': ties, 'container': container}, 'weight': math.factorial(n) ** m * (3 if not ties else 1),
                    'split': split, 'engine': dict({'validate': 40}, **eng)})

    def trunc(designs, split=None):
        out.append({'name': 'trunc-' + ''.join(map(str, designs)), 'task': 'truncate', 'args': {'designs': designs},
                    'weight': 4 ** len(designs), 'split': split, 'engine': {'validate': 40}})

    def tour(n, m, split=None):
        out.append({'name': 'tournament-n%d-m%d' % (n, m), 'task': 'tournament', 'args': {'n': n, 'm': m},
                    'weight': 9 ** n, 'split': split, 'engine': {'validate': 40}})

    for n in (0, 1, 2):
        crowd(n, 2, True)
    crowd(3, 1, False)
    crowd(3, 2, False)
    crowd(4, 1, False)
    crowd(3, 1, True)
    crowd(3, 2, True, split=32)
    crowd(3, 2, False, container='ndarray')
    crowd(3, 1, True, container='ndarray')
    trunc([0])
    trunc([0, 1])
    trunc([0, 0])
    trunc([0, 1, 2], split=32)
    trunc([0, 1, 1], split=32)
    trunc([0, 1, 2, 3], split=64)
    trunc([0, 1, 1, 2], split=64)
    for n, nsym, kmax in ((6, 1, 2), (9, 2, 2), (13, 1, 3)):
        out.append({'name': 'trunc-large-n%d-%d-symbolic-k<=%d' % (n, nsym, kmax), 'task': 'truncate',
                    'args': {'designs': list(range(n)), 'large': {'symbolic': nsym, 'kmax': kmax}}, 'weight': 12 ** nsym * n, 'split': 32,
                    'engine': {'validate': 40}})
    tour(1, 1)
    tour(2, 2)
    tour(3, 1, split=32)
    tour(3, 2, split=32)
    if tier == 'thorough':
        crowd(4, 2, False, split=96)
        crowd(5, 1, False, split=64)
        crowd(4, 2, True, split=96)
        crowd(4, 1, True)
        crowd(3, 3, False, split=64)
        trunc([0, 1, 2, 3, 4], split=128)
        trunc([0, 1, 2, 2, 0], split=128)
        tour(4, 2, split=64)
    return out
