#!/usr/bin/env python3
"""Mutation self-test helper (not part of any MANIFEST command).

usage: mutant.py <property> <relative file> <old text> <new text> [--tier quick] [--only glob]

Copies /repo/artap to a scratch directory outside /repo and /verif, applies the textual
replacement (must match exactly once), points the check at the copy through
PYTHONPATH/ARTAP_REPO, prints the check's last lines and exit code, deletes the copy.
"""
import os, shutil, subprocess, sys, tempfile

def main():
    a = sys.argv[1:]
    prop, rel, old, new = a[:4]
    rest = a[4:]
    d = tempfile.mkdtemp(prefix='artap-mutant-')
    try:
        shutil.copytree('/repo/artap', os.path.join(d, 'artap'), ignore=shutil.ignore_patterns('__pycache__', 'tests'))
        p = os.path.join(d, rel)
        s = open(p).read()
        n = s.count(old)
        if n != 1:
            print('MUTANT-ERROR: pattern occurs %d times' % n); sys.exit(3)
        open(p, 'w').write(s.replace(old, new))
        env = dict(os.environ, PYTHONPATH=d, ARTAP_REPO=d, VERIF_EVIDENCE_DIR=os.path.join(d, 'evidence'), VERIF_REPLAY_DIR=os.path.join(d, 'replays'))
        r = subprocess.run([os.path.join(os.path.dirname(os.path.dirname(os.path.abspath(__file__))), 'vcheck'), prop] + rest,
                           env=env, capture_output=True, text=True)
        out = (r.stdout + r.stderr).strip().splitlines()
        print('\n'.join(out[-8:]))
        print('MUTANT exit=%d' % r.returncode)
        sys.exit(r.returncode)
    finally:
        shutil.rmtree(d, ignore_errors=True)
main()
