#!/bin/sh
# usage: run_patch_all.sh <patch file> [props...]  -- runs the quick tier of the given (default: all) checks
# against a scratch copy of /repo/artap with the patch applied (PYTHONPATH), prints one line per check.
P="$1"; shift
PROPS="${@:-C01 C02 C03 C04 C05 C06 C08 C09 C10 C12 C13 C14 C15 C16 C17 C18 C19 C20}"
D=$(mktemp -d /tmp/artap-patchrun-XXXXXX)
mkdir -p $D/t && cp -r /repo/artap $D/t/artap && ( cd $D/t && patch -p1 -s < "$P" ) || { echo "patch failed"; rm -rf $D; exit 3; }
for p in $PROPS; do
  out=$(PYTHONPATH=$D/t ARTAP_REPO=$D/t VERIF_EVIDENCE_DIR=$D/ev VERIF_REPLAY_DIR=$D/rp /verif/vcheck $p 2>&1); code=$?
  echo "$p exit=$code $(echo "$out" | grep -E "^VIOLATION|^INCONCLUSIVE|^  [a-z]" | head -n 3 | cut -c1-260 | tr '\n' ' ')"
done
rm -rf $D
