#!/bin/sh
# usage: run_seed.sh <seed dir> <property> [vcheck args...]
# Runs a check against a seeded change WITHOUT touching /repo: scratch copy of /repo/artap
# with the patch applied, pointed at through PYTHONPATH.  (The recorded confirmation runs use
# `git -C /repo apply` / `git -C /repo checkout -- .` instead; this variant is safe while other
# runs use /repo.)
S="$1"; P="$2"; shift 2
D=$(mktemp -d /tmp/artap-seedrun-XXXXXX)
mkdir -p $D/t && cp -r /repo/artap $D/t/artap && ( cd $D/t && patch -p1 -s < "$S/patch.diff" ) || { echo "patch failed"; rm -rf $D; exit 3; }
PYTHONPATH=$D/t ARTAP_REPO=$D/t VERIF_EVIDENCE_DIR=$D/ev VERIF_REPLAY_DIR=$D/rp /verif/vcheck $P "$@" 2>&1 | grep -v "^$" | tail -n 6 | cut -c1-500
rm -rf $D
