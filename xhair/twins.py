"""PEP 316 twins for CrossHair (second opinion, thorough tier only).  Each function calls the
REAL artap code; CrossHair searches the postcondition for a counterexample."""
from typing import List, Tuple

from artap.operators import ParetoDominance
from artap.individual import Individual
from artap.operators import Operator

_P = ParetoDominance()


def pareto_antisymmetry_m2(a0: float, a1: float, b0: float, b1: float, am: int, bm: int) -> bool:
    """
    pre: 0 <= am <= 1 and 0 <= bm <= 1
    post: _
    """
    r1 = _P.compare([a0, a1, am], [b0, b1, bm])
    r2 = _P.compare([b0, b1, bm], [a0, a1, am])
    return {0: 0, 1: 2, 2: 1}[r1] == r2


def pareto_definition_m1(a0: float, b0: float) -> bool:
    """
    post: _
    """
    r = _P.compare([a0, 0], [b0, 0])
    return r == (1 if a0 < b0 else (2 if b0 < a0 else 0))


def eq_all_coordinates_n2(a0: float, a1: float, b0: float, b1: float) -> bool:
    """
    pre: -1e6 < a0 < 1e6 and -1e6 < a1 < 1e6 and -1e6 < b0 < 1e6 and -1e6 < b1 < 1e6
    post: _
    """
    got = bool(Individual([a0, a1]) == Individual([b0, b1]))
    want = abs(a0 - b0) < 1e-10 and abs(a1 - b1) < 1e-10
    return got == want


def clip_inside(v: float, lo: float, hi: float) -> bool:
    """
    pre: lo <= hi
    post: _
    """
    r = Operator.clip(v, lo, hi)
    return lo <= r <= hi
