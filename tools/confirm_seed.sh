#!/bin/sh
# usage: confirm_seed.sh <seed dir with patch.diff + demo.py> [--fullsuite]
# Confirms a seeded change independently in a scratch worktree outside /repo and /verif:
# patch applies to /repo HEAD, demo fails with it and passes without it, test suite still passes.
# Prints a JSON line; removes the worktree afterwards.
S="$1"; FULL="$2"
N=$(basename "$S")
W=/tmp/confirm_$N
git -C /repo worktree remove --force $W >/dev/null 2>&1
git -C /repo worktree add --detach $W HEAD >/dev/null 2>&1 || { echo "{\"seed\":\"$N\",\"error\":\"worktree\"}"; exit 1; }
( cd $W && git apply "$S/patch.diff" ) || { echo "{\"seed\":\"$N\",\"error\":\"patch does not apply\"}"; git -C /repo worktree remove --force $W; exit 1; }
( cd $W && timeout 600 /venv/bin/python "$S/demo.py" >/tmp/confirm_$N.demo_mut.log 2>&1 ); DM=$?
( cd /repo && timeout 600 /venv/bin/python "$S/demo.py" >/tmp/confirm_$N.demo_ref.log 2>&1 ); DR=$?
FAILS="skipped"
if [ "$FULL" = "--fullsuite" ]; then
  ( cd $W && /venv/bin/python -m pytest -q -p no:cacheprovider --timeout=900 -n 6 artap/tests > /tmp/confirm_$N.tests.log 2>&1 )
  FAILS=$(grep -E "^FAILED" /tmp/confirm_$N.tests.log | grep -v "test_surrogate_smt" | sed 's/ - .*//' | tr '\n' ';')
  SUMMARY=$(tail -n 1 /tmp/confirm_$N.tests.log)
fi
git -C /repo worktree remove --force $W >/dev/null 2>&1
rm -rf $W
echo "{\"seed\":\"$N\",\"demo_exit_with_change\":$DM,\"demo_exit_without\":$DR,\"unexpected_test_failures\":\"$FAILS\",\"suite\":\"$SUMMARY\"}"
