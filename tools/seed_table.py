#!/usr/bin/env python3
"""Prints the markdown table of DESIGN.md section 9.2 from /verif/seeded/*/{meta.json,verdict.txt}."""
import glob, json, os, re
STRENGTHENED = {
 'C04_1': 'missed at first (all members had distinct designs) -> step/history configurations with members sharing a design vector',
 'C05_1': 'missed at first (no configuration combined constraints with a retry) -> `retry-with-constraints` (shared with C06)',
 'C08_1': 'inconclusive at first (`int()` of a symbolic real unsupported) -> `int` modelled as truncation',
 'C08_2': 'inconclusive at first (only power-of-ten-like precisions) -> precisions 0.5, 5, 0.02 added',
 'C09_1': 'missed at first (pre-state built by hand) -> parents produced by the real evaluation path with an injected failure; C06 marker check added',
 'C09_2': 'inconclusive at first (hash of a symbolic number) -> symbolic hashing allowed where every key is symbolic',
 'C10_1': 'missed at first -> revert histories; tokens made deterministic per solver term (equal data = equal JSON text)',
 'C10_2': 'inconclusive at first (hash of symbolic vectors) -> symbolic hashing; history sync0,sync1,mut1,all',
 'C13_1': 'missed at first -> GSD configurations whose reduction exceeds a level count',
 'C14_1': 'missed at first -> worst-case configuration with a transient failure of a submitted design',
 'C16_2': 'inconclusive at first (models of the uninterpreted x^100 / x^10000 did not reproduce) -> numeric anchor lemmas for large powers + witness formula (violation larger than the replay tolerance)',
 'C20_1': 'missed at first -> hash/equality after in-place update, re-assignment and sync()',
 'C01_3': 'missed at first (every check used a fresh comparator) -> `reuse-*`: the same comparator object on vectors of another length',
 'C02_3': 'missed at first (one sort per selector) -> the same selector re-sorts the same individuals in another order',
 'C06_3': 'missed at first (no parameter declared a precision in the retry harness) -> coarse precision on the first parameter only (also C08)',
 'C10_3': 'missed at first (names x0,x1 / f0,f1 are sorted; cost order compared leniently) -> unsorted names, definition order strict',
 'C12_3': 'missed at first (fresh generator per check) -> re-initialisation of the same generator object with another level count / bounds',
 'C13_3': 'missed at first (level counts <= 4) -> a factor with 130 / 260 / 300 levels',
 'C15_3': 'missed at first (dimensions 1..3) -> optimum clause and concrete samples for every dimension 1..12,16,20,24,30 (thorough 1..30)',
 'C17_3': 'missed at first (only tag 1 passed explicitly) -> every listing with explicit tags 0, 1, 2',
 'C18_3': 'missed at first (distinct position vectors) -> leaders and particles sharing one position vector',
 'C05_4': 'missed at first (every design kept the default stored precision 7) -> stored precision 0 and 2 (thorough 0,1,2,3,12)',
 'C12_4': 'missed at first (Halton with 1, 3 and 4 parameters only) -> prime-base table for every dimension 1..40 (thorough 1..200), generator with 5..8 parameters',
 'C14_4': 'missed at first (tolerances assumed strictly positive) -> tolerance 0 included',
 'C16_4': 'inconclusive at first (`np.asarray(.., dtype=float)` of proxies unsupported; list vectors only) -> numpy shim keeps proxies and the aliasing of `asarray`; ndarray design vectors, vector-not-modified and same-design-same-objectives checks',
 'C01_5': 'FALSE ALARM of the machinery at first (the `float` shim was passed to numpy as `dtype=float` -> TypeError reported as a violation): shims for the names float/int became numpy-compatible type objects; then caught properly by the new `containers-*` configurations (tuple / ndarray arguments used in more than one comparison, arguments-not-modified)',
 'C02_5': 'strengthened before its first run (same idea as C01_5): signed costs stored as numpy arrays, real comparator instead of its summary, stored-costs-not-modified',
 'C03_5': 'strengthened before its first run: crowding on numpy-array costs, stored-costs-not-modified',
 'C04_5': 'missed at first (every archive got its own comparator) -> archives built with the shared default comparator after another archive used it with a different number of objectives',
 'C05_5': 'inconclusive at first (`np.asarray(costs, dtype=float)` of proxies) -> numpy shim in artap.individual (asarray/round keep proxies and aliasing); objective returning a numpy array',
 'C09_5': 'missed at first (generate() was only run with stubbed operators on list vectors) -> `variation-contract-*`: real SBX / PM on list and ndarray vectors must not write into or share memory with their arguments; generate() with ndarray parents',
 'C10_5': 'missed at first (updates between two syncs re-bound every attribute) -> histories with in-place updates (`imut`)',
 'C12_5': 'inconclusive at first (in-place `x *= range` of a float matrix with symbolic bounds; only one Halton design per path) -> alias-preserving object-array stand-in for the matrix returned by halton(); a SECOND design of the same size with another box',
 'C13_5': 'missed at first (fresh parameter dicts per generator) -> `sequence-*`: several generators in a row on the SAME parameter dicts, parameter definitions must stay untouched',
 'C14_5': 'missed at first (list vectors only) -> worst-case and gradient evaluators on numpy-array design vectors, design-vector-unchanged for the gradient evaluator too',
 'C15_5': 'inconclusive at first (the corrupted function object showed up as a translator-validation mismatch) -> evaluate() must leave the documented optimum / coordinates / box untouched; second call on the same point returns the same cost',
 'C17_5': 'missed at first (each query kind in its own configuration) -> after the queries of every configuration, population queries must still list in recording order and the records must carry their own data',
 'C18_5': 'missed at first (one particle per update) -> two particles sharing ONE personal-best record (PSOGA does that), rule applied particle by particle',
 'C19_5': 'inconclusive at first (`math.isfinite` of a proxy) -> math shim in artap.surrogate; the objective may return +inf; the oracle keeps copies; values returned earlier must not be modified later',
 'C20_5': 'inconclusive at first (`np.asarray(vector, dtype=float)` of proxies) -> numpy shim in artap.individual; `containers-ndarray-*`: each point in several comparisons, operands untouched, hash unchanged',
 'C03_6': 'missed at first (crowding_distance called once per front) -> the same front is ranked again in another order and all crowding laws are re-checked on the new values',
 'C05_6': 'missed at first (one Problem object per process) -> configurations that create another Problem with the opposite minimise/maximise assignment first',
 'C12_6': 'missed at first (only the default criterion of lhs() was run) -> criteria center / maximin / centermaximin / correlation with the C-level candidate scores replaced by arbitrary ones',
 'C13_6': 'missed at first (a fresh GSDGenerator for the complementary family) -> the same generator object is initialised a second time',
 'C14_6': 'missed at first (every batch held new designs only) -> an earlier design is re-submitted with a later batch',
 'C15_6': 'missed at first (one function object per process; then a second one created BEFORE the object under test) -> other objects of the same class with other dimensions created before AND after it',
 'C16_6': 'missed at first (one DTLZ object per process) -> other DTLZ objects with the same m and another dimension, and with another m, evaluated before and after',
 'C18_6': 'missed at first (pre-states with at most N leaders) -> pre-states with more leaders than the population size (size option lowered since the last generation)',
 'C19_6': 'missed at first (train_step fixed per run) -> train_step switched in the middle of a request sequence',
 'C20_6': 'missed at first (all points had distinct ids) -> points that carry the same id (from_dict / deepcopy) with different vectors',
 'C02_7': 'missed at first (at most 2 objectives in the quick tier, 3 in the thorough tier) -> populations of 2-3 individuals with 4, 5 (6) objectives',
 'C03_7': 'missed by the quick tier at first (populations of at most 4; the thorough tier with 5 caught it) -> `trunc-large-*`: populations of 6, 9 and 13 with one or two symbolic members and small truncation sizes',
 'C04_7': 'missed by the quick tier at first (archives of at most 4 members; the thorough tier with 6 caught it) -> `step-staircase-*`: concrete staircases of 6, 7, 9 mutually non-dominated members, symbolic newcomer',
 'C05_7': 'missed, then inconclusive (at most 2 objectives; `np.copysign` has no object loop) -> 4, 5 and 7 objectives; copysign / sign in the numpy shim',
 'C10_7': 'missed at first (at most 3 individuals per store) -> stores with 9, 14 (11, 23) individuals, only the first carrying solver choices',
 'C14_7': 'missed at first (batches of at most 2 designs) -> one batch of up to 8 (6, 4) designs for 1 (2, 3) parameters',
 'C16_7': 'missed at first (DTLZ1 with at most 3 / 5 objectives) -> DTLZ1 with 6, 7 (9) objectives',
 'C17_7': 'missed at first (the distance kernel of gd is SciPy C code, checked by contract on <= 3 reference points) -> concrete reference fronts of 11, 12, 40 and 150 points; the spatial stub forwards what it does not model',
 'C18_7': 'missed at first (personal best with at most 2 objectives) -> 4 and 5 objectives',
 'C19_7': 'missed at first (train_step <= 3, at most 4 / 7 requests) -> scripted accept/decline patterns of 14-25 requests with train_step 4, 5, 7 (values symbolic)',
 'C03_8': 'inconclusive at first (`math.isclose` of proxies) -> isclose in the math shim, installed in artap.operators for the truncation harness',
 'C04_8': 'missed at first (0/1 feasibility markers only) -> real-valued markers of any sign for the Pareto comparator (for the epsilon comparator the equal-magnitude opposite-sign pairs are excluded: not fixed by the property)',
 'C05_8': 'missed at first (every batch listed distinct objects) -> the same design object listed twice in one batch',
 'C06_8': 'missed at first (serial evaluation only) -> the parallel path (max_processes = 2) with one design per batch and scripted outcomes: what the caller sees',
 'C09_8': 'missed by the quick tier at first (the constrained inductive step was thorough-only and caught it) -> moved into the quick tier',
 'C10_8': 'missed at first (store runs with the default evaluator) -> sweep runs with the gradient and the worst-case evaluator attached to a store',
 'C12_8': 'inconclusive at first (the loop body cut out of `_van_der_corput` no longer exists after the vectorisation) -> concrete supplement: last points of the sequence for sample counts around every power of the first seven prime bases',
 'C19_8': 'missed at first (training set empty at the start) -> training set seeded with 1, 3 (2, 5) samples before the requests',
 'C20_8': 'inconclusive at first (`math.isclose` of proxies) -> math shim in artap.individual',
 'C02_9': 'missed at first (every sort got a fresh list object) -> the same list object is sorted, changed in place (one member replaced) and sorted again',
 'C05_9': 'missed at first (one sweep per generator) -> a second sweep driven by the same generator object',
 'C06_9': 'missed at first (plain TimeoutError / RuntimeError injected) -> every second injected failure is an instance of a subclass',
 'C15_9': 'inconclusive at first (`x.index(c)` on proxies forks on every equality; exploration exceeded its budget) -> concrete supplement: sample points with tied coordinates, with the bound clause',
 'C20_4': 'inconclusive at first (`hash(point)` inside the library hit the int-only builtin) -> shim calls the real `__hash__`; the real CPython collision hash(-1.0) == hash(-2.0) as model-selection hint so that the counterexample replays',
 'C06_10': 'missed at first (the retry harness ran with the default dummy store) -> `single-dim1-store-attached`: a recording store (one row per id, last write wins) is attached; failed designs must have no row, the evaluated design a row with its final data',
 'C09_10': 'missed at first (the parents of the inductive step were pairwise distinct) -> `step-*-first-generation-repeats-a-design`: two parents share one design (discrete parameters), the next generation must still be free of repeats',
 'C10_10': 'missed at first (the only `thread_safe=False` history ended with a bulk sync) -> histories in that store mode with rows written one by one only before the store is closed',
 'C14_10': 'missed at first (tolerances were declared before the algorithm was built) -> `worst-*-tolerances-declared-after-construction`: symbolic tolerances written into the problem after the algorithm and its evaluator exist',
 'C20_10': 'missed at first (every point kept the default stored precision 7) -> equality between points whose `features[\'precision\']` is 0, 2, 3, 10, 12 (equal and different on the two sides), both argument orders',
 'C05_11': 'missed at first (every sweep object ran once; the second sweep used a new SweepAlgorithm) -> the SAME sweep object runs again after the generator was given a new plan (other designs, one fewer)',
 'C04_11': 'inconclusive at first (hash of a symbolic number: the changed archive keys a set on cost tuples) -> `step-after-add-and-truncate-*`: pre-state built by real add()/truncate() on pinned symbolic costs, symbolic hashing allowed (every key symbolic), newcomer may repeat a dropped member',
}
print('| seed | change (abridged) | needs | verdict of the check(s) on the patched tree | note |')
print('|---|---|---|---|---|')
for d in sorted(glob.glob('/verif/seeded/*/')):
    sid = os.path.basename(d.rstrip('/'))
    m = json.load(open(d + 'meta.json'))
    v = open(d + 'verdict.txt').read() if os.path.exists(d + 'verdict.txt') else ''
    runs = re.findall(r'^(\S+) (C\d+) quick exit=(\d)', v, re.M)
    firsts = re.findall(r'config=(\S+) check=(\S+)', v)
    verdict = '; '.join('%s exit %s' % (p, c) for _s, p, c in runs)
    if firsts:
        verdict += ' (%s / %s)' % firsts[0]
    ch = (m.get('breaks') or '').replace('|', '/').replace('\n', ' ')
    ch = ch[:150] + ('…' if len(ch) > 150 else '')
    nd = (m.get('needs_to_manifest') or '').replace('|', '/').replace('\n', ' ')
    nd = nd[:130] + ('…' if len(nd) > 130 else '')
    print('| %s | %s | %s | %s | %s |' % (sid, ch, nd, verdict, STRENGTHENED.get(sid, 'caught as built')))
