#!/usr/bin/env python3
"""import_seed.py <seedout dir> -- copies a confirmed seeded change into /verif/seeded/<id>/ (patch.diff,
demo.py, meta.json) and merges my own confirmation record (tools/confirm_seed.sh output) into meta.json."""
import json, os, shutil, sys
src = sys.argv[1].rstrip('/')
sid = os.path.basename(src)
conf = json.load(open(os.path.join(src, 'confirm.json')))
assert conf.get('demo_exit_with_change') == 1 and conf.get('demo_exit_without') == 0, conf
meta = json.load(open(os.path.join(src, 'meta.json')))
dst = os.path.join('/verif/seeded', sid)
os.makedirs(dst, exist_ok=True)
shutil.copy(os.path.join(src, 'patch.diff'), dst)
shutil.copy(os.path.join(src, 'demo.py'), dst)
out = {
    'property': meta.get('property', sid.split('_')[0]),
    'breaks': meta.get('summary'),
    'needs_to_manifest': meta.get('needs_to_manifest'),
    'files': meta.get('files'),
    'produced_by': 'independent sub-agent given only the property text and its own git worktree of /repo (nothing from /verif)',
    'agent_tests_run': meta.get('tests_run'),
    'confirmed_by_me': {
        'how': 'tools/confirm_seed.sh <dir> --fullsuite: fresh scratch worktree of /repo HEAD, git apply patch.diff, demo.py run in the worktree and in /repo, '
               'whole test suite (pytest -n 6) in the worktree, worktree removed',
        'demo_exit_with_change': conf['demo_exit_with_change'], 'demo_exit_without_change': conf['demo_exit_without'],
        'test_suite': conf.get('suite'), 'unexpected_test_failures': conf.get('unexpected_test_failures', ''),
    },
    'checks_run': 'tools/seed_verdicts.sh: git -C /repo apply patch.diff; ./vcheck <property> --tier quick; git -C /repo checkout -- .  (result in verdict.txt)',
}
extra = sys.argv[2:]
if extra:
    out['also_checked_by'] = extra
json.dump(out, open(os.path.join(dst, 'meta.json'), 'w'), indent=1)
print('imported', sid)
