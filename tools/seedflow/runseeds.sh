#!/bin/sh
# usage: runseeds.sh id...
for id in "$@"; do
  p=${id%%_*}
  /verif/selftest/run_seed.sh /tmp/seedout/$id $p --tier quick > /tmp/rs_$id.log 2>&1
done
