#!/bin/sh
# import confirmed wave-10 seeds; verdict.txt from the run_seed.sh logs (fallback until seed_verdicts.sh has run)
for d in /tmp/seedout/*_1[0-9]; do
  id=$(basename $d); p=${id%%_*}
  [ -f $d/confirm.json ] || { echo "$id: not confirmed yet"; continue; }
  python3 /verif/tools/import_seed.py $d || continue
  if [ ! -f /verif/seeded/$id/verdict.txt ] && [ -f /tmp/rs_$id.log ]; then
    code=$(grep -oE "exit=[0-9]+" /tmp/rs_$id.log | tail -1 | cut -d= -f2)
    { echo "$id $p quick exit=$code"; grep -E "^VIOLATION|^  config=" /tmp/rs_$id.log | head -n 4 | sed -E "s#/tmp/artap-seedrun-[A-Za-z0-9]+/rp#<replays>#"; grep -E "^INCONCLUSIVE|^C[0-9]+ quick" /tmp/rs_$id.log; } > /verif/seeded/$id/verdict.txt
  fi
done
