#!/bin/sh
while [ ! -f /tmp/cloop.stop ]; do
  did=0
  for d in /tmp/seedout/*; do
    [ -f $d/patch.diff ] && [ -f $d/demo.py ] && [ -f $d/meta.json ] && [ ! -f $d/confirm.json ] && [ ! -f $d/confirm.json.tmp ] || continue
    mkdir $d/.lock 2>/dev/null || continue
    /verif/tools/confirm_seed.sh $d --fullsuite > $d/confirm.json.tmp 2>&1; mv $d/confirm.json.tmp $d/confirm.json; did=1
  done
  [ $did = 0 ] && sleep 20
done
