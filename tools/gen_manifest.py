#!/usr/bin/env python3
"""Regenerates /verif/MANIFEST.json from the table below (kept in one place so that the
manifest, the not_applicable list and the harness modules cannot drift apart)."""
import json, os
HERE = os.path.dirname(os.path.dirname(os.path.abspath(__file__)))

TECH = 'bounded symbolic execution of the real Python functions (z3 proxy objects, re-execution per decision prefix), property as SMT query per path; counterexamples replayed on real floats'

CLAIMED = {
 'C01': dict(
    text='Bounded symbolic model checking: both real comparators are executed symbolically for every vector length in the bound and folded into one ite term; definition equivalence with a textbook oracle, range, irreflexivity, antisymmetry, transitivity, epsilon/Pareto agreement and duplicate rejection are SMT queries answered unsat for ALL real-valued vectors of that length and all markers. Right level: the laws are universally quantified over values, which the solver covers completely; only the length is bounded.',
    note='floats modelled as reals (exact for order comparisons; epsilon scaling exact only up to rounding of adjacent quotients); NaN/inf and epsilon=0 outside; vector length m<=4 quick / m<=6 thorough; z3 trusted',
    ref='DESIGN.md section 5 C01'),
}

NOT_APPLICABLE = {
 'C07': 'quantifies over OS-thread interleavings (joblib threading backend) and SQLite file locking: no symbolic executor for multi-threaded CPython or C extensions is available; a schedule variable would degenerate to enumerating concrete schedules (the solver decides nothing)',
 'C11': 'quantifies over process death at arbitrary instants; the guarantee comes from SQLite journalling and the OS, which cannot be encoded; a symbolic crash point degenerates to enumerating kill points of concrete runs',
}

PENDING = {}
for i in range(1, 21):
    pid = 'C%02d' % i
    if pid not in CLAIMED and pid not in NOT_APPLICABLE:
        PENDING[pid] = 'harness not built yet in this round (planned, see DESIGN.md section 5); not claimed until its check exists and passes'

def main():
    checks = []
    for pid in sorted(CLAIMED):
        c = CLAIMED[pid]
        checks.append({
            'property_id': pid,
            'quick_cmd': './vcheck %s --tier quick' % pid,
            'thorough_cmd': './vcheck %s --tier thorough' % pid,
            'evidence_file': 'evidence/%s.json' % pid,
            'replay_cmd_template': './vcheck %s --replay {path}' % pid,
            'engine': 'symx',
            'level_claimed': {'category': 'model_checking', 'text': c['text'], 'design_ref': c['ref']},
            'level_note': c['note'],
            'technique': c.get('technique', TECH),
        })
    na = [{'property_id': k, 'reason': v} for k, v in sorted({**NOT_APPLICABLE, **PENDING}.items())]
    man = {
        'version': 1,
        'setup_cmd': 'sh ./setup.sh',
        'hooks': {
            'guard': 'ARTAP_VERIF',
            'enable': 'no source hooks are needed: stubs are installed at run time by assigning module globals of the imported artap modules (see DESIGN.md 2.2); the guard is reserved and unused',
            'baseline_off_cmd': 'cd /repo && /venv/bin/python -m pytest -ra -q -p no:cacheprovider --timeout=900 --continue-on-collection-errors',
            'source_commits': [],
            'add_only': True,
        },
        'engines': [{'name': 'symx', 'path': 'symx/', 'serves_properties': sorted(CLAIMED),
                     'kind_free_text': 'purpose-built re-execution symbolic engine for Python over the z3 API (proxy numbers, decision-prefix DFS, function summaries as ite terms, UF + lemma library for transcendental functions, concrete replay of every model)'}],
        'checks': checks,
        'not_applicable': na,
        'notes': 'All checks: exit 0 = every obligation unsat on every explored path and exploration exhaustive within the stated bounds; exit 1 + VIOLATION line = solver model that reproduces on the real code with real floats; exit 2 = inconclusive (never a pass). Known genuine defects are listed in known_findings.json.',
    }
    with open(os.path.join(HERE, 'MANIFEST.json'), 'w') as f:
        json.dump(man, f, indent=1)
    print('claimed', sorted(CLAIMED), 'n/a', sorted(NOT_APPLICABLE), 'pending', sorted(PENDING))

if __name__ == '__main__':
    main()
