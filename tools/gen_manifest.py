#!/usr/bin/env python3
"""Regenerates /verif/MANIFEST.json from the table below (kept in one place so that the
manifest, the not_applicable list and the harness modules cannot drift apart)."""
import json, os
HERE = os.path.dirname(os.path.dirname(os.path.abspath(__file__)))

TECH = 'bounded symbolic execution of the real Python functions (z3 proxy objects, re-execution per decision prefix), property as SMT query per path; counterexamples replayed on real floats'

CLAIMED = {
 'C01': dict(
    text='Bounded symbolic model checking: both real comparators are executed symbolically for every vector length in the bound and folded into one ite term; definition equivalence with a textbook oracle, range, irreflexivity, antisymmetry, transitivity, epsilon/Pareto agreement and duplicate rejection are SMT queries answered unsat for ALL real-valued vectors of that length and all markers. Right level: the laws are universally quantified over values, which the solver covers completely; only the length is bounded.',
    note='floats modelled as reals (exact for order comparisons; epsilon scaling exact only up to rounding of adjacent quotients); NaN/inf and epsilon=0 outside; vector length m<=4 quick / m<=6 thorough; z3 trusted',
    ref='DESIGN.md section 5 C01'),
 'C02': dict(
    text='Bounded symbolic model checking of the real sorter: n individuals with solver-variable cost vectors; every feasible path of fast_nondominated_sorting is explored and on each the front numbers are proved (unsat) to satisfy the declarative rank relation written with the textbook dominance relation. Because the individuals are interchangeable variables this covers every input order, tie, duplicate and chain of populations up to the size bound.',
    note='n<=4 (m<=2) quick, n<=6/m<=3 thorough; crowding_distance calls stubbed except in *-crowd configurations; comparator used through a summary validated against the real method; floats as reals (exact: only comparisons)',
    ref='DESIGN.md section 5 C02'),
 'C03': dict(
    text='Bounded symbolic model checking of crowding_distance (closed-form oracle with ite terms, all orders through forking in list.sort), nondominated_truncate/nondominated_cmp (real set()/hash path on concrete designs, symbolic ranks, crowding values and k) and TournamentSelector.select (random.sample/choice as symbolic choices). Every obligation is unsat for all values within the size bounds.',
    note='front sizes n<=4 quick / n<=5 thorough; interior formula in the reals (doubles: rounding error, replays compare at 1e-9); random stubs by contract',
    ref='DESIGN.md section 5 C03'),
 'C04': dict(
    text='One inductive step of the real Archive.add from an ARBITRARY invariant-satisfying archive (symbolic members, arbitrary new solution) proves post-state = ND(S u {x}), return value and invariant preservation for all values; bounded histories from the empty archive (incl. extend/+=/append and reversed order) guard the invariant; truncate with symbolic features and size. Induction lifts the step to histories of any length for archives up to the size bound.',
    note='step n<=4 quick / n<=6 thorough, m<=3; Pareto and epsilon comparator (fixed positive epsilon lists) through summaries; floats as reals',
    ref='DESIGN.md section 5 C04'),
 'C05': dict(
    text='Symbolic execution of Job.evaluate / Evaluator / Algorithm.evaluate / calc_signed_costs / SweepAlgorithm.run / evaluate_scalar (also through ScipyOpt.run and NLopt._function) with an uninterpreted objective and constraints: call counts, call order, stored costs, signs, rounding, marker and marker ordering are SMT obligations over all design vectors, all objective values, every initial-state mix and every minimise/maximise assignment in the bound.',
    note='batches <=2 quick / <=3 thorough, <=2 objectives, <=2 constraints; objective in Ackermann form; np.round by contract (ROUND7); SciPy/NLopt optimisers themselves replaced by an arbitrary query sequence',
    ref='DESIGN.md section 5 C05'),
 'C06': dict(
    text='Symbolic execution of the real retry loop with a solver-chosen fault at every objective call: all 4^k patterns of up to 5 calls of one design (including exactly four and exactly five consecutive failures, witnessed) and batches; replacement designs come from the real gen_vector/gen_number with random() symbolic. Failed-list contents, final costs/vector/state, exception propagation and the in-bounds clause are SMT obligations per path.',
    note='one design all patterns; batches of 2 (<=3 faults quick, all thorough); round() modelled as nearest integer (superset of half-even); failures in worker threads outside',
    ref='DESIGN.md section 5 C06'),
 'C08': dict(
    text='Symbolic execution of SBX, polynomial / uniform / non-uniform mutation, clip, the swarm turbulence operators, gen_number / gen_vector / RandomGenerator and the value mapping of every DOE generator with a SYMBOLIC box, parents anywhere in the closed box and every random draw, probability, distribution index and iteration symbolic: every returned coordinate inside the box (up to the declared precision for samplers) on every path; in the *-domain configurations additionally no pow() on a negative base and no zero divisor is feasible (no complex number / exception can reach clip). The swarm position update is covered by C18; the whole-run clause holds by composition with the C09 skeletons (assume-guarantee, stated in the evidence).',
    note='dimension <=2 quick / <=3 thorough (domain: 1 coordinate); floats as reals; box configurations havoc nonlinear intermediates (sound: the final clip establishes containment); integer/boolean parameters and SimpleMutator/SimpleCrossover outside',
    ref='DESIGN.md section 5 C08'),
 'C09': dict(
    text='Decomposed (whole-run symbolic exploration is out of reach): (1) the body of the generation loop of NSGAII.run is cut out of the current source and executed symbolically from an arbitrary evaluated parent population: exactly N evaluations, N recorded individuals with the right tag, no repeated design, no survivor dominated by a dropped candidate, monotone best cost (m=1), for all cost values; (2) GeneticAlgorithm.generate with arbitrary in-box children returns exactly N pairwise distinct offspring (unwinding 3); (3) Selector.pop_acceptance, all cases, arbitrary costs; (4) the whole real NSGAII.run() for G<=3 generations with the uninterpreted objective (generate by contract): budget, tags, sizes, elitism between all consecutive generations, with and without an injected failure; (5) run skeletons of NSGA-II / eps-MOEA / OMOPSO / SMPSO with every placement of injected transient failures: budget, tags, sizes, provenance. Parts 1-4 are solver-decided for all values within the size bounds; part 5 is composition glue (concrete objective, seeded randomness, fault placement as solver choice).',
    note='N=2 (m<=2) quick, N=3 (m=1) thorough; generate unwound 3 iterations (longer paths cut, counted; termination not claimed); skeletons N<=3, G<=3; self.generate replaced by its contract in the step harness',
    ref='DESIGN.md section 5 C09'),
 'C10': dict(
    text='PARTIAL: the real to_dict / json / sqlite3 / read_from_datastore / from_dict run on histories of sync operations with symbolic float leaves crossing the text boundary as tokens; "returned leaf == last synced leaf for that id" is decided by z3 for all values (swapped, dropped or truncated fields, first-wins conflict clauses and stale rows give models with distinct values that are replayed with real doubles through the real store); one row per id; problem definition round trip; a small real algorithm run with the store attached ends with a row holding the final data of every recorded individual.',
    note='NOT claimed: bit-exactness of float repr/parse for all doubles (observed only on concrete validation/replay runs), the SQLite engine, durability; histories <=3 operations quick / <=6 thorough, <=3 individuals',
    ref='DESIGN.md section 5 C10'),
 'C12': dict(
    text='LHS: the real lhs/_lhsclassic/build_lhs/LHSGenerator run on NumPy object arrays with symbolic draws and every permutation as a path; exactly one sample per stratum is an SMT obligation for all draws and all boxes. Halton: the per-index loop body of _van_der_corput is cut out of the current source (AST) and run on a symbolic index in digit form, proving the radical-inverse law for EVERY index below b^K; generator output = independent radical-inverse oracle scaled to symbolic bounds. Uniform grid and random generator with symbolic bounds.',
    note='LHS N<=3 quick / N<=4 thorough; digit law bases 2..7 quick / 2..13 thorough with bounded digit counts; Halton unit samples compared at 1e-12; floats as reals',
    ref='DESIGN.md section 5 C12'),
 'C13': dict(
    text='Per enumerated configuration the real generators run with symbolic bounds / symbolic pairwise-distinct level values; the structure laws (every combination exactly once; PB: only the two bounds, run count, balanced and pairwise orthogonal columns for n=1..23; BB: every corner of every factor pair once plus one centre; GSD: duplicate-free subset, complementary designs pairwise disjoint and exhaustive, also through GSDGenerator) are SMT obligations over the cell terms for all level values.',
    note='configurations enumerated (integer inputs of NumPy/SciPy kernels), values symbolic; sizes as listed in the evidence bounds',
    ref='DESIGN.md section 5 C13'),
 'C14': dict(
    text='Symbolic execution of the real WorstCaseEvaluator / GradientEvaluator through Algorithm.evaluate over several consecutive batches with an uninterpreted objective, symbolic design vectors and tolerances: neighbour construction, the extra objective, cost-vector lengths after every batch for every design seen so far, call counts per batch, forward-difference quotient and work-list reset are SMT obligations (all objective functions, all tolerances).',
    note='dim<=2 quick / <=3 thorough, <=4 consecutive batches; reals for x+tol and the quotient; evaluate_scalar variants outside',
    ref='DESIGN.md section 5 C14'),
 'C15': dict(
    text='Symbolic execution of every single-objective benchmark on an arbitrary point of its box: totality (no exception, one real cost) for all points; the bound clause "no point beats the documented optimum by more than 1e-3" is proved by z3 with sound lemma instances for Rosenbrock, Ackley, Sphere, Schwefel (Taylor enclosure, per-coordinate chaining), ModifiedEasom, EqualityConstr, Griewank, Perm, Rastrigin, SixHump, Zakharov, XinSheYang 1-3, Booth, Alpine, and by solver-driven adaptive branch and bound (per cell: Taylor / chord / tangent enclosures of every sin / exp application around the cell centre, guards discharged by the solver, UF-free QF_NRA refutation query) for GramacyLee, Synthetic1D and Synthetic2D; the optimum-value clause (no quantifier) is evaluated on the real code with Python and numpy floats. For Michalewicz, Schubert and Synthetic5D/10D the bound clause is reported undecided (only a refutation attempt is made).',
    note='dimensions 1-3 quick / up to 5 thorough; floats as reals; transcendental functions as uninterpreted functions + true lemma instances; undecided clauses listed in the evidence',
    ref='DESIGN.md section 5 C15'),
 'C16': dict(
    text='Symbolic execution of the real evaluate() of DTLZ1-4, ZDT1 and the bi-objective problem on an arbitrary point of the box with sin/cos/sqrt uninterpreted plus Pythagorean/range/quadrant lemmas; the defining identities (sum, norm, f2 formula, product) and non-negativity are polynomial obligations decided in NRA for every point of the box.',
    note='m<=4 quick / m<=5 thorough, dimension m+9; identities over the reals; lemma instances are true facts about sin/cos/sqrt, z3 + nlsat tactic trusted',
    ref='DESIGN.md section 5 C16'),
 'C17': dict(
    text='Symbolic execution of the real Results queries and Problem population accessors on recorded individuals with solver-variable vectors/costs, every combination of generation tags and front numbers, and of epsilon_add on point sets of solver variables; pairing, ordering, optimum and max-min-max obligations hold for all values. For generational distance the SciPy cdist kernel (C code) is replaced by its contract (Euclidean distance matrix) and the aggregation artap adds (nearest reference point, mean, zero iff all computed points are reference points) is decided.',
    note='<=3 individuals quick / <=4 thorough; epsilon_add <=2x2 (3x3 in 1-D) points; gd: distance kernel by contract, <=2x2 points',
    ref='DESIGN.md section 5 C17'),
 'C18': dict(
    text='One symbolic step of each real swarm helper from an arbitrary state: update_particle_best (replaced iff the old best does not dominate the new position), speed_constriction / update_velocity incl. the PSOGA override (every component within half the range, all draws and the box symbolic), update_position for OMOPSO/SMPSO/PSOGA (sum or violated bound, velocity reversed or damped by 0.001, result inside the box, positions and velocities arbitrary reals), update_global_best from an arbitrary invariant-satisfying leader archive (size bound, mutual non-domination). All obligations unsat for all values within the size bounds.',
    note='dimension <=2 quick / <=3 thorough; leader archive and swarm <=2 / <=3; random draws by contract; multi-generation behaviour only through the inductive step',
    ref='DESIGN.md section 5 C18'),
 'C19': dict(
    text='Symbolic execution of SurrogateModelEval / SurrogateModelPredict over request sequences where the hook decision, the outcome of each training, train_step and the initial trained state are solver choices (exhaustively forked) and objective values are symbolic; a reference automaton gives the expected counters, training data, retrain instants and return values; obligations per request.',
    note='sequences <=4 quick / <=6 thorough; regressors themselves (scikit-learn, SMT) outside: train() of a harness subclass sets trained by symbolic choice',
    ref='DESIGN.md section 5 C19'),
 'C20': dict(
    text='Symbolic execution of Individual.__eq__/__hash__ and of list membership, list.remove, list.index, Archive.remove and the duplicate test of generate over vectors of solver variables: equality iff all coordinates within 1e-10, symmetry, per-coordinate sensitivity, hash congruence, and exactness of membership/removal are SMT obligations for all vectors up to the length bound.',
    note='n<=4 quick / n<=6 thorough, lists <=3/4; hash() of a tuple of proxies modelled as an uninterpreted function of its elements',
    ref='DESIGN.md section 5 C20'),
}

NOT_APPLICABLE = {
 'C07': 'quantifies over OS-thread interleavings (joblib threading backend) and SQLite file locking: no symbolic executor for multi-threaded CPython or C extensions is available; a schedule variable would degenerate to enumerating concrete schedules (the solver decides nothing)',
 'C11': 'quantifies over process death at arbitrary instants; the guarantee comes from SQLite journalling and the OS, which cannot be encoded; a symbolic crash point degenerates to enumerating kill points of concrete runs',
}

PENDING = {}
for i in range(1, 21):
    pid = 'C%02d' % i
    if pid not in CLAIMED and pid not in NOT_APPLICABLE:
        PENDING[pid] = 'harness not built yet in this round (planned, see DESIGN.md section 5); not claimed until its check exists and passes'

def main():
    checks = []
    for pid in sorted(CLAIMED):
        c = CLAIMED[pid]
        checks.append({
            'property_id': pid,
            'quick_cmd': './vcheck %s --tier quick' % pid,
            'thorough_cmd': './vcheck %s --tier thorough' % pid,
            'evidence_file': 'evidence/%s.json' % pid,
            'replay_cmd_template': './vcheck %s --replay {path}' % pid,
            'engine': 'symx',
            'level_claimed': {'category': 'model_checking', 'text': c['text'], 'design_ref': c['ref']},
            'level_note': c['note'],
            'technique': c.get('technique', TECH),
        })
    na = [{'property_id': k, 'reason': v} for k, v in sorted({**NOT_APPLICABLE, **PENDING}.items())]
    man = {
        'version': 1,
        'setup_cmd': 'sh ./setup.sh',
        'hooks': {
            'guard': 'ARTAP_VERIF',
            'enable': 'no source hooks are needed: stubs are installed at run time by assigning module globals of the imported artap modules (see DESIGN.md 2.3); the guard is reserved and unused',
            'baseline_off_cmd': 'cd /repo && /venv/bin/python -m pytest -ra -q -p no:cacheprovider --timeout=900 --continue-on-collection-errors',
            'source_commits': [],
            'add_only': True,
        },
        'engines': [{'name': 'symx', 'path': 'symx/', 'serves_properties': sorted(CLAIMED),
                     'kind_free_text': 'purpose-built re-execution symbolic engine for Python over the z3 API (proxy numbers, decision-prefix DFS, function summaries as ite terms, UF + lemma library for transcendental functions, concrete replay of every model)'}],
        'checks': checks,
        'not_applicable': na,
        'notes': 'All checks: exit 0 = every obligation unsat on every explored path and exploration exhaustive within the stated bounds; exit 1 + VIOLATION line = solver model that reproduces on the real code with real floats; exit 2 = inconclusive (never a pass). Known genuine defects are listed in known_findings.json.',
    }
    with open(os.path.join(HERE, 'MANIFEST.json'), 'w') as f:
        json.dump(man, f, indent=1)
    print('claimed', sorted(CLAIMED), 'n/a', sorted(NOT_APPLICABLE), 'pending', sorted(PENDING))

if __name__ == '__main__':
    main()
