#!/bin/sh
# For every seeded change under /verif/seeded: apply it to /repo (git apply), run the quick check of its
# property (and further properties given in meta.json "also_checked_by"), undo it straight afterwards
# (git checkout -- .).  Evidence and replay files of these runs go to a scratch directory.
# Run only while nothing else uses /repo.  Writes /verif/seeded/<id>/verdict.txt.
set -u
cd /verif
[ -z "$(git -C /repo status --porcelain)" ] || { echo "/repo is not clean"; exit 1; }
for d in /verif/seeded/*/; do
  id=$(basename $d); prop=${id%%_*}
  [ -n "${1:-}" ] && [ "$1" != "$id" ] && continue
  scratch=$(mktemp -d /tmp/artap-seedverdict-XXXXXX)
  git -C /repo apply $d/patch.diff || { echo "$id: patch does not apply" | tee $d/verdict.txt; rm -rf $scratch; continue; }
  props="$prop $(python3 -c "import json,sys; print(' '.join(json.load(open('$d/meta.json')).get('also_checked_by', [])))")"
  : > $d/verdict.txt
  for p in $props; do
    out=$(VERIF_EVIDENCE_DIR=$scratch/ev VERIF_REPLAY_DIR=$scratch/rp ./vcheck $p --tier quick 2>&1); code=$?
    echo "$id $p quick exit=$code" >> $d/verdict.txt
    echo "$out" | grep -E "^VIOLATION|^  config=" | head -n 4 | sed "s#$scratch/rp#<replays>#" >> $d/verdict.txt
    echo "$out" | grep -E "^INCONCLUSIVE|^C[0-9]+ quick" >> $d/verdict.txt
  done
  git -C /repo checkout -- .
  rm -rf $scratch
  cat $d/verdict.txt | head -n 3
done
[ -z "$(git -C /repo status --porcelain)" ] || echo "WARNING: /repo not clean"
