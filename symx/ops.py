"""Polymorphic operators (work on proxies and on plain Python values), the models of
math/numpy scalar functions, and the lemma library for transcendental functions."""
import builtins
import math
from fractions import Fraction

import numpy as np
import z3

from .core import (SNum, SBool, cur, toz3, tobool3, is_sym, Unsupported, ComplexValue,
                   numeral_fraction, _is_num, _real, _is_inf)


# --------------------------------------------------------------------------
# polymorphic logic (harness oracles are written with these so that they can be
# evaluated on solver terms and on floats alike)
# --------------------------------------------------------------------------
def _anysym(xs):
    return any(isinstance(x, (SNum, SBool)) or z3.is_expr(x) for x in xs)


def And(*xs):
    xs = _flat(xs)
    if _anysym(xs):
        return SBool(z3.And(*[tobool3(x) for x in xs])) if xs else True
    return all(bool(x) for x in xs)


def Or(*xs):
    xs = _flat(xs)
    if _anysym(xs):
        return SBool(z3.Or(*[tobool3(x) for x in xs])) if xs else False
    return any(bool(x) for x in xs)


def Not(x):
    if isinstance(x, (SNum, SBool)) or z3.is_expr(x):
        return SBool(z3.Not(tobool3(x)))
    return not x


def Implies(a, b):
    return Or(Not(a), b)


def Iff(a, b):
    if _anysym([a, b]):
        return SBool(tobool3(a) == tobool3(b))
    return bool(a) == bool(b)


def _flat(xs):
    out = []
    for x in xs:
        if isinstance(x, (list, tuple)):
            out.extend(_flat(x))
        else:
            out.append(x)
    return out


def ite(c, a, b):
    if isinstance(c, (SBool,)) or z3.is_expr(c):
        ct = tobool3(c)
        if isinstance(a, (SBool, bool)) and isinstance(b, (SBool, bool)):
            return SBool(z3.If(ct, tobool3(a), tobool3(b)))
        if _is_inf(a) or _is_inf(b):
            # cannot put inf in a term: decide
            return a if bool(SBool(ct)) else b
        ta, tb = toz3(a), toz3(b)
        if z3.is_int(ta) != z3.is_int(tb):
            ta, tb = _real(ta), _real(tb)
        return SNum(z3.If(ct, ta, tb))
    return a if c else b


def Sum(xs):
    xs = list(xs)
    s = 0
    for x in xs:
        s = s + x
    return s


def smax(*args, **kw):
    """max() that builds an ite term for two proxies instead of forking."""
    if len(args) == 1 and not kw:
        seq = list(args[0])
        if _anysym(seq) and len(seq) >= 1 and not any(_is_inf(v) for v in seq):
            r = seq[0]
            for v in seq[1:]:
                r = ite(v > r, v, r)
            return r
        return builtins.max(seq)
    if kw or not _anysym(args) or any(_is_inf(a) for a in args):
        return builtins.max(*args, **kw)
    r = args[0]
    for v in args[1:]:
        r = ite(v > r, v, r)
    return r


def smin(*args, **kw):
    if len(args) == 1 and not kw:
        seq = list(args[0])
        if _anysym(seq) and len(seq) >= 1 and not any(_is_inf(v) for v in seq):
            r = seq[0]
            for v in seq[1:]:
                r = ite(v < r, v, r)
            return r
        return builtins.min(seq)
    if kw or not _anysym(args) or any(_is_inf(a) for a in args):
        return builtins.min(*args, **kw)
    r = args[0]
    for v in args[1:]:
        r = ite(v < r, v, r)
    return r


def sabs(x):
    return abs(x)


class _TypeShimMeta(type):
    """The shims for the NAMES `float` / `int` inside a module under test must stay usable wherever the code uses
    the name as a type: isinstance(x, float), dtype=float (numpy reads the `dtype` attribute of a type object)."""

    def __instancecheck__(cls, obj):
        if isinstance(obj, cls._builtin):
            return True
        return isinstance(obj, SNum) and cls._accepts(obj)

    def __subclasscheck__(cls, sub):
        return issubclass(sub, cls._builtin)

    def __repr__(cls):
        return "<class '%s'>" % cls._builtin.__name__


class sfloat(metaclass=_TypeShimMeta):
    """float(x) that lets proxies through."""
    _builtin = builtins.float
    dtype = np.dtype('float64')
    __name__ = 'float'

    @staticmethod
    def _accepts(obj):
        return not obj.is_int

    def __new__(cls, x=0.0):
        if isinstance(x, SNum):
            return SNum(_real(x.t))
        return builtins.float(x)


class sint(metaclass=_TypeShimMeta):
    """int(x): truncation toward zero.  On a symbolic real: fresh integer k with
    x>=0 -> k <= x < k+1, x<0 -> k-1 < x <= k."""
    _builtin = builtins.int
    dtype = np.dtype('int64')
    __name__ = 'int'

    @staticmethod
    def _accepts(obj):
        return obj.is_int

    def __new__(cls, x=0, *a):
        if isinstance(x, SNum):
            if x.is_int:
                return x
            c = cur()
            k = c.fresh('trunc', 'int')
            kr = z3.ToReal(k)
            c.lemma(z3.If(x.t >= 0, z3.And(kr <= x.t, x.t < kr + 1), z3.And(kr - 1 < x.t, x.t <= kr)))
            return SNum(k)
        return builtins.int(x, *a)


def ssum(seq, start=0):
    s = start
    for v in seq:
        s = s + v
    return s


def close(a, b, tol):
    """|a-b| <= tol, polymorphic."""
    d = a - b
    return And(d <= tol, d >= -tol)


def differs(a, b, tol):
    """a != b for an identity over the reals: exact on solver terms (the stronger and,
    for nonlinear arithmetic, much cheaper query), |a-b| > tol on floats (replay)."""
    if _anysym([a, b]):
        return a != b
    d = a - b
    return d > tol or d < -tol


def far(a, b, tol):
    d = a - b
    return Or(d > tol, d < -tol)


# --------------------------------------------------------------------------
# rounding
# --------------------------------------------------------------------------
_ROUND_UF = {}


def _round_uf(nd, numpy_style=False):
    """np.round and the builtin round are different functions at ties (NumPy scales and
    rounds half to even, CPython rounds the exact decimal value): separate symbols."""
    key = (nd, numpy_style)
    f = _ROUND_UF.get(key)
    if f is None:
        f = z3.Function('%sROUND%s' % ('NP' if numpy_style else 'PY', str(nd).replace('-', 'm')), z3.RealSort(), z3.RealSort())
        _ROUND_UF[key] = f
    return f


def sround(x, ndigits=None, numpy_style=False):
    """round(x, n) / np.round(x, decimals=n) on a proxy.

    n is None: a fresh integer k with |k - x| <= 1/2 (superset of banker's rounding).
    otherwise: uninterpreted ROUNDn(x) with |ROUNDn(x) - x| <= 0.5*10**-n, monotone on
    the applications present on the path (congruence comes with the UF)."""
    c = cur()
    if not isinstance(x, SNum):
        return builtins.round(x, ndigits) if not numpy_style else np.round(x, ndigits)
    if x.is_int and (ndigits is None or ndigits >= 0):
        return x
    xt = _real(x.t)
    if ndigits is None:
        k = c.fresh('rnd', 'int')
        c.lemma(z3.And(z3.ToReal(k) - xt <= z3.RealVal('1/2'), xt - z3.ToReal(k) <= z3.RealVal('1/2')))
        # models used for replay / validation stay away from rounding ties
        c.robust.append(z3.And(z3.ToReal(k) - xt <= z3.RealVal('49/100'), xt - z3.ToReal(k) <= z3.RealVal('49/100')))
        return SNum(k)
    f = _round_uf(ndigits, numpy_style)
    app = f(xt)
    half = z3.RatVal(1, 2 * 10 ** ndigits) if ndigits >= 0 else z3.RealVal(5 * 10 ** (-ndigits - 1))
    apps = c.uf_apps.setdefault(('round', ndigits, numpy_style), [])
    if not LEMMAS['round_lemmas']:
        # plain uninterpreted function (any function): sound over-approximation.  Models used for
        # replay / validation take the rounding as the identity, which real rounding is up to 0.5*10**-n
        if not any(a.eq(xt) for a, _ in apps):
            c.robust.append(app == xt)
            apps.append((xt, app))
        return SNum(app)
    if not any(a.eq(xt) for a, _ in apps):
        c.lemma(z3.And(app - xt <= half, xt - app <= half))
        c.robust.append(z3.And(app - xt <= half * z3.RealVal('49/50'), xt - app <= half * z3.RealVal('49/50')))
        # the rounded value is a multiple of 10**-n (makes "rounding dropped" models
        # reproducible on real floats)
        if LEMMAS['round_grid']:
            k = c.fresh('rndk', 'int')
            scale = z3.RatVal(1, 10 ** ndigits) if ndigits >= 0 else z3.RealVal(10 ** (-ndigits))
            c.lemma(app == z3.ToReal(k) * scale)
        for a, fa in apps:
            c.lemma(z3.And(z3.Implies(a <= xt, fa <= app), z3.Implies(xt <= a, app <= fa)))
        apps.append((xt, app))
    return SNum(app)


# --------------------------------------------------------------------------
# lemma library (sound facts about the real functions; instantiated per application)
# --------------------------------------------------------------------------
# enclosure chosen so that the double math.pi (3.141592653589793116) lies below PI_LO:
# x in [0,1] => x*math.pi/2 <= PI/2 for every PI in the enclosure
PI_LO = Fraction(314159265358979312, 10 ** 17)
PI_HI = Fraction(314159265358979324, 10 ** 17)
E_LO = Fraction(2718281828459045, 10 ** 15)
E_HI = Fraction(2718281828459046, 10 ** 15)

SIN = z3.Function('SIN', z3.RealSort(), z3.RealSort())
COS = z3.Function('COS', z3.RealSort(), z3.RealSort())
EXP = z3.Function('EXP', z3.RealSort(), z3.RealSort())
SQRT = z3.Function('SQRT', z3.RealSort(), z3.RealSort())
POW = z3.Function('POW', z3.RealSort(), z3.RealSort(), z3.RealSort())
PI = z3.Real('PI')
EULER = z3.Real('EULER')


def rv(fr):
    fr = Fraction(fr)
    return z3.RatVal(fr.numerator, fr.denominator)


def sym_pi():
    """pi as a solver constant inside a 1e-15 enclosure (math.pi is a double and lies
    inside it, too)."""
    c = cur()
    if c is None or not c.symbolic:
        return math.pi
    if not c.uf_apps.get('pi'):
        c.uf_apps['pi'] = True
        c.lemma(z3.And(PI > rv(PI_LO), PI < rv(PI_HI)))
    return SNum(PI)


def sym_e():
    c = cur()
    if c is None or not c.symbolic:
        return math.e
    if not c.uf_apps.get('e'):
        c.uf_apps['e'] = True
        c.lemma(z3.And(EULER > rv(E_LO), EULER < rv(E_HI)))
    return SNum(EULER)


# optional lemma groups (completeness hints only; every lemma is a true statement)
LEMMA_DEFAULTS = {'taylor': False, 'exp_rational': True, 'exp_monotone': True, 'taylor6': False, 'round_grid': True, 'round_lemmas': True}
LEMMAS = dict(LEMMA_DEFAULTS)


def configure(**kw):
    """Select the optional lemma groups for the current harness body (resets the others)."""
    LEMMAS.clear()
    LEMMAS.update(LEMMA_DEFAULTS)
    LEMMAS.update(kw)


def _register(kind, arg):
    c = cur()
    apps = c.uf_apps.setdefault(kind, [])
    for a in apps:
        if a.eq(arg):
            return apps, False
    return apps, True


def _trig_pair(arg):
    """Register SIN(arg)/COS(arg) together: Pythagoras + range."""
    c = cur()
    apps, new = _register('trig', arg)
    if new:
        s, co = SIN(arg), COS(arg)
        c.lemma(s * s + co * co == 1)
        c.lemma(z3.And(s >= -1, s <= 1, co >= -1, co <= 1))
        if c.uf_apps.get('pi'):
            # first-quadrant sign facts and a few special points
            c.lemma(z3.Implies(z3.And(arg >= 0, arg <= PI / 2), z3.And(s >= 0, co >= 0)))
            c.lemma(z3.Implies(z3.And(arg >= 0, arg <= PI), s >= 0))
            c.lemma(z3.Implies(z3.And(arg >= -PI / 2, arg <= PI / 2), co >= 0))
        c.lemma(z3.Implies(arg == 0, z3.And(s == 0, co == 1)))
        if LEMMAS['taylor']:
            # alternating Taylor bounds, valid for all real arguments
            a2 = arg * arg
            c.lemma(co >= 1 - a2 / 2)
            c.lemma(co <= 1 - a2 / 2 + a2 * a2 / 24)
            c.lemma(z3.Implies(arg >= 0, z3.And(s <= arg, s >= arg - a2 * arg / 6)))
            c.lemma(z3.Implies(arg <= 0, z3.And(s >= arg, s <= arg - a2 * arg / 6)))
        if LEMMAS['taylor6']:
            a2 = arg * arg
            c.lemma(co >= 1 - a2 / 2 + a2 * a2 / 24 - a2 * a2 * a2 / 720)
        apps.append(arg)


def ssin(x):
    if not isinstance(x, SNum):
        return math.sin(x)
    arg = _real(x.t)
    sa = z3.simplify(arg)
    if _is_num(sa) and numeral_fraction(sa) == 0:
        return SNum(z3.RealVal(0))
    _trig_pair(arg)
    return SNum(SIN(arg))


def scos(x):
    if not isinstance(x, SNum):
        return math.cos(x)
    arg = _real(x.t)
    sa = z3.simplify(arg)
    if _is_num(sa) and numeral_fraction(sa) == 0:
        return SNum(z3.RealVal(1))
    _trig_pair(arg)
    return SNum(COS(arg))


def sexp(x):
    if not isinstance(x, SNum):
        return math.exp(x)
    c = cur()
    arg = _real(x.t)
    sa = z3.simplify(arg)
    if _is_num(sa) and numeral_fraction(sa) == 0:
        return SNum(z3.RealVal(1))
    apps, new = _register('exp', arg)
    app = EXP(arg)
    if new:
        c.lemma(app > 0)
        c.lemma(app >= 1 + arg)                       # convexity, all real arguments
        c.lemma(z3.Implies(arg <= 0, app <= 1))
        c.lemma(z3.Implies(arg >= 0, app >= 1))
        if LEMMAS['exp_rational']:
            c.lemma(z3.Implies(arg < 1, app * (1 - arg) <= 1))   # e^t <= 1/(1-t) for t<1
        c.lemma(z3.Implies(arg == 0, app == 1))
        if c.uf_apps.get('e'):
            c.lemma(z3.Implies(arg == 1, app == EULER))
            c.lemma(z3.Implies(arg <= 1, app <= EULER))
            c.lemma(z3.Implies(arg >= 1, app >= EULER))
            c.lemma(z3.Implies(arg <= -1, app * EULER <= 1))
        if LEMMAS['exp_monotone']:
            for a in apps:
                fa = EXP(a)
                c.lemma(z3.And(z3.Implies(a <= arg, fa <= app), z3.Implies(arg <= a, app <= fa)))
        apps.append(arg)
    return SNum(app)


def ssqrt(x):
    if not isinstance(x, SNum):
        return math.sqrt(x)
    c = cur()
    arg = _real(x.t)
    if bool(SBool(arg < 0)):
        raise ValueError('math domain error')
    sa = z3.simplify(arg)
    if _is_num(sa):
        fr = numeral_fraction(sa)
        r = _exact_sqrt(fr)
        if r is not None:
            return SNum(rv(r))
    apps, new = _register('sqrt', arg)
    app = SQRT(arg)
    if new:
        c.lemma(z3.And(app >= 0, app * app == arg))
        for a in apps:
            fa = SQRT(a)
            c.lemma(z3.And(z3.Implies(a <= arg, fa <= app), z3.Implies(arg <= a, app <= fa)))
        apps.append(arg)
    return SNum(app)


def _exact_sqrt(fr):
    if fr < 0:
        return None
    n, d = fr.numerator, fr.denominator
    rn, rd = math.isqrt(n), math.isqrt(d)
    if rn * rn == n and rd * rd == d:
        return Fraction(rn, rd)
    return None


def spow(b, e):
    """b ** e / pow(b, e) / math.pow(b, e) with at least one proxy."""
    c = cur()
    if not isinstance(b, SNum) and not isinstance(e, SNum):
        return builtins.pow(b, e)
    # constant exponent
    if not isinstance(e, SNum):
        ef = Fraction(e) if not isinstance(e, Fraction) else e
        if ef.denominator == 1 and abs(ef.numerator) > MAX_INT_POWER:
            return _big_int_power(b, int(ef))
        if ef.denominator == 1:
            k = int(ef)
            if k == 0:
                return SNum(z3.RealVal(1)) if not b.is_int or isinstance(e, float) else SNum(z3.IntVal(1))
            if k < 0:
                if bool(SBool(b.t == 0)):
                    raise ZeroDivisionError('0.0 cannot be raised to a negative power')
                return 1.0 / _int_power(b, -k)
            r = _int_power(b, k)
            if isinstance(e, float) and r.is_int:
                r = SNum(_real(r.t))
            return r
        if ef == Fraction(1, 2) and (c is None or getattr(c, 'domain_checks', True)):
            if bool(SBool(b.t < 0)):
                raise ComplexValue('negative base with fractional exponent gives a complex number')
            return ssqrt(b)
    # general case: uninterpreted POW with sign/range axioms
    bt = _real(toz3(b))
    et = _real(toz3(e))
    if c is not None and not getattr(c, 'domain_checks', True):
        # containment-only mode: the value is irrelevant (a final clip follows) and domain
        # errors are the subject of the precise-mode configurations
        return SNum(c.fresh('pw'))
    if isinstance(b, SNum):
        neg = SBool(bt < 0)
        if bool(neg):
            # Python: complex result for ** / pow, ValueError for math.pow unless the
            # exponent is integral
            raise ComplexValue('negative base with fractional exponent gives a complex number')
        if bool(SBool(z3.And(bt == 0, et < 0))):
            raise ZeroDivisionError('0.0 cannot be raised to a negative power')
    apps, new = _register('pow', z3.RealVal(0))
    key = (bt, et)
    lst = c.uf_apps.setdefault('pow_apps', [])
    app = POW(bt, et)
    if not any(a.eq(bt) and x.eq(et) for a, x in lst):
        c.lemma(z3.Implies(bt > 0, app > 0))
        c.lemma(z3.Implies(bt >= 0, app >= 0))
        c.lemma(z3.Implies(z3.And(bt >= 1, et <= 0), z3.And(app <= 1, app > 0)))
        c.lemma(z3.Implies(z3.And(bt >= 1, et >= 0), app >= 1))
        c.lemma(z3.Implies(z3.And(bt >= 0, bt <= 1, et >= 0), z3.And(app >= 0, app <= 1)))
        c.lemma(z3.Implies(z3.And(bt > 0, bt <= 1, et <= 0), app >= 1))
        c.lemma(z3.Implies(z3.And(bt == 0, et > 0), app == 0))
        c.lemma(z3.Implies(bt == 1, app == 1))
        c.lemma(z3.Implies(z3.And(et == 0), app == 1))
        c.lemma(z3.Implies(et == 1, app == bt))
        # monotone in the base for equal exponents (e >= 0: increasing, e <= 0: decreasing)
        for a, x in lst:
            if x.eq(et):
                fa = POW(a, x)
                c.lemma(z3.Implies(z3.And(et >= 0, a >= 0, bt >= 0),
                                   z3.And(z3.Implies(a <= bt, fa <= app), z3.Implies(bt <= a, app <= fa))))
                c.lemma(z3.Implies(z3.And(et <= 0, a > 0, bt > 0),
                                   z3.And(z3.Implies(a <= bt, fa >= app), z3.Implies(bt <= a, app >= fa))))
        lst.append(key)
    return SNum(app)


MAX_INT_POWER = 12
_IPOW = {}


def _big_int_power(b, k):
    """b ** k for a large integer k: uninterpreted monomial IPOWk(b) with sound facts
    (sign, unit interval, fixed points, monotone on b>=0 among the instances present)."""
    c = cur()
    if k < 0:
        if getattr(c, 'domain_checks', True) and bool(SBool(b.t == 0)):
            raise ZeroDivisionError('0.0 cannot be raised to a negative power')
        return 1.0 / _big_int_power(b, -k)
    f = _IPOW.get(k)
    if f is None:
        f = z3.Function('IPOW%d' % k, z3.RealSort(), z3.RealSort())
        _IPOW[k] = f
    bt = _real(b.t)
    app = f(bt)
    apps = c.uf_apps.setdefault(('ipow', k), [])
    if not any(a.eq(bt) for a in apps):
        if k % 2 == 0:
            c.lemma(app >= 0)
        else:
            c.lemma(z3.Implies(bt <= 0, app <= 0))
        c.lemma(z3.Implies(z3.And(bt >= 0, bt <= 1), z3.And(app >= 0, app <= bt)))
        c.lemma(z3.Implies(bt >= 1, app >= bt))
        c.lemma(z3.Implies(bt == 0, app == 0))
        c.lemma(z3.Implies(bt == 1, app == 1))
        for a in apps:
            fa = f(a)
            c.lemma(z3.Implies(z3.And(a >= 0, bt >= 0),
                               z3.And(z3.Implies(a <= bt, fa <= app), z3.Implies(bt <= a, app <= fa))))
        # numeric anchor points (monotone on b >= 0): b >= t -> b^k >= t^k, b <= t -> b^k <= t^k, with the
        # double value of t^k rounded outward.  True facts; they keep solver models of the uninterpreted
        # monomial close to reality, which matters for the replay of counterexamples
        for t in (Fraction(1, 2), Fraction(9, 10), Fraction(99, 100), Fraction(999, 1000)):
            v = float(t) ** k
            lo = Fraction(v) * Fraction(999999999, 1000000000)
            hi = Fraction(v) * Fraction(1000000001, 1000000000) + Fraction(1, 10 ** 300)
            c.lemma(z3.Implies(z3.And(bt >= rv(t)), app >= rv(lo)))
            c.lemma(z3.Implies(z3.And(bt >= 0, bt <= rv(t)), app <= rv(hi)))
        apps.append(bt)
    return SNum(app)


def _int_power(b, k):
    c = cur()
    if c is not None and c.havoc and k >= 2:
        v = c.fresh('pw')
        if k % 2 == 0:
            c.lemma(v >= 0)
        return SNum(v)
    # square-and-multiply keeps the term small
    if k == 1:
        return b
    half = _int_power(b, k // 2)
    sq = SNum(half.t * half.t)
    return sq if k % 2 == 0 else SNum(sq.t * b.t)


def sfabs(x):
    if isinstance(x, (SNum, SBool)):
        return abs(x)
    return math.fabs(x)


# --------------------------------------------------------------------------
# numpy ufunc dispatch for proxies
# --------------------------------------------------------------------------
def numpy_ufunc(ufunc, inputs, kwargs):
    n = ufunc.__name__
    if any(isinstance(v, np.ndarray) and v.ndim > 0 for v in inputs):
        # element-wise over an array operand (object arrays hold proxies)
        arrs = [np.asarray(v, dtype=object) if isinstance(v, np.ndarray) else v for v in inputs]
        shape = next(v.shape for v in arrs if isinstance(v, np.ndarray))
        out = np.empty(shape, dtype=object)
        for idx in np.ndindex(*shape):
            out[idx] = numpy_ufunc(ufunc, [v[idx] if isinstance(v, np.ndarray) else v for v in arrs], kwargs)
        return out
    a = inputs[0]
    b = inputs[1] if len(inputs) > 1 else None
    a = _unwrap(a)
    b = _unwrap(b)
    if n == 'add':
        return a + b
    if n == 'subtract':
        return a - b
    if n == 'multiply':
        return a * b
    if n in ('true_divide', 'divide'):
        return a / b
    if n == 'negative':
        return -a
    if n == 'positive':
        return a
    if n in ('absolute', 'fabs'):
        return abs(a)
    if n == 'power':
        return spow(a, b)
    if n == 'square':
        return a * a
    if n == 'cos':
        return scos(a)
    if n == 'sin':
        return ssin(a)
    if n == 'exp':
        return sexp(a)
    if n == 'sqrt':
        return ssqrt(a)
    if n == 'less':
        return a < b
    if n == 'less_equal':
        return a <= b
    if n == 'greater':
        return a > b
    if n == 'greater_equal':
        return a >= b
    if n == 'equal':
        return a == b
    if n == 'not_equal':
        return a != b
    if n == 'maximum':
        return smax(a, b)
    if n == 'minimum':
        return smin(a, b)
    raise Unsupported('numpy ufunc %s on a proxy' % n)


def _unwrap(v):
    if isinstance(v, np.ndarray) and v.ndim == 0:
        return v.item()
    if isinstance(v, np.floating):
        return float(v)
    if isinstance(v, np.integer):
        return int(v)
    return v


# real counterparts of the uninterpreted functions (translator validation / float_eval)
def _register_uf_floats():
    from . import core as _core
    _core.UF_FLOAT.update({
        'SIN': math.sin, 'COS': math.cos, 'EXP': math.exp, 'SQRT': math.sqrt,
        'POW': lambda b, e: math.pow(b, e),
    })

    class _Lazy(dict):
        def get(self, k, d=None):
            if k in self:
                return dict.get(self, k)
            if k.startswith('IPOW'):
                n = int(k[4:])
                return lambda b: b ** n
            if k.startswith('NPROUND') or k.startswith('PYROUND'):
                nd = k[7:]
                nd = -int(nd[1:]) if nd.startswith('m') else int(nd)
                if k.startswith('NP'):
                    return lambda x: float(np.round(x, nd))
                return lambda x: float(builtins.round(float(x), nd))
            return d
    lazy = _Lazy(_core.UF_FLOAT)
    _core.UF_FLOAT = lazy


_register_uf_floats()
