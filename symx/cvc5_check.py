"""python -m symx.cvc5_check <file.smt2>  -- decides one SMT-LIB file with the cvc5 wheel and prints
sat / unsat / unknown.  Run as a subprocess by the engine's cross-check so that a solver that
ignores its time limit can be killed."""
import sys


def main():
    import cvc5
    txt = open(sys.argv[1]).read()
    tm = cvc5.TermManager() if hasattr(cvc5, 'TermManager') else None
    slv = cvc5.Solver(tm) if tm is not None else cvc5.Solver()
    slv.setOption('tlimit-per', '10000')
    slv.setLogic('ALL')
    parser = cvc5.InputParser(slv)
    parser.setStringInput(cvc5.InputLanguage.SMT_LIB_2_6, txt, 'obligation')
    sm = parser.getSymbolManager()
    res = 'unknown'
    while True:
        cmd = parser.nextCommand()
        if cmd.isNull():
            break
        out = str(cmd.invoke(slv, sm)).strip()
        if out in ('sat', 'unsat', 'unknown'):
            res = out
    print(res)


if __name__ == '__main__':
    main()
