"""symx core: re-execution symbolic engine over the z3 Python API.

The code under test (unmodified functions of /repo/artap) is executed natively by
CPython.  Scalars the property quantifies over are proxy objects (SNum, SBool)
wrapping z3 terms.  `SBool.__bool__` asks the current path context (Ctx) which
way to go; the engine re-executes the harness body once per feasible decision
prefix until the work list is empty (exhaustive, depth-first).

The same harness body can be run in *concrete* mode (ConcreteCtx): every symbolic
input is replaced by an ordinary Python float/int taken from a solver model, the
real float arithmetic and the real math/numpy functions run, and every check is
evaluated concretely.  This is used (a) to replay counterexamples before they are
reported and (b) to validate the symbolic translation on path models.
"""
import math
import sys
import time
from fractions import Fraction

import z3

sys.setrecursionlimit(100000)   # ite summaries nest one level per path (hundreds deep)

try:
    import numpy as _np
except Exception:  # pragma: no cover
    _np = None


# --------------------------------------------------------------------------
# control-flow exceptions of the engine.  They derive from BaseException so that
# `except Exception` / bare `except: ... raise` blocks in the code under test do
# not swallow them (Job.evaluate has such a block).
# --------------------------------------------------------------------------
class EngineAbort(BaseException):
    pass


class PathCut(EngineAbort):
    """The path is abandoned deliberately (unwinding bound); counted, never a pass."""

    def __init__(self, reason):
        super().__init__(reason)
        self.reason = reason


class Unsupported(EngineAbort):
    """An operation the engine cannot model was reached -> harness error."""


class Infeasible(EngineAbort):
    """The path condition became unsatisfiable (after an assume)."""


class ComplexValue(TypeError):
    """Stands for the TypeError Python raises once a complex number (negative base,
    fractional exponent) reaches an ordering comparison such as clip()."""


_CTX = None


def cur():
    return _CTX


def set_ctx(c):
    global _CTX
    _CTX = c


# --------------------------------------------------------------------------
# conversions
# --------------------------------------------------------------------------
def is_sym(v):
    return isinstance(v, (SNum, SBool))


def any_sym(seq):
    for v in seq:
        if isinstance(v, (SNum, SBool)):
            return True
        if isinstance(v, (list, tuple)):
            if any_sym(v):
                return True
    return False


def _is_inf(v):
    return isinstance(v, float) and math.isinf(v)


def ratval(f):
    fr = Fraction(f)
    return z3.RatVal(fr.numerator, fr.denominator)


def toz3(v):
    """Python number or proxy -> z3 arithmetic term (exact)."""
    if isinstance(v, SNum):
        return v.t
    if isinstance(v, SBool):
        return z3.If(v.t, z3.IntVal(1), z3.IntVal(0))
    if isinstance(v, bool):
        return z3.IntVal(1 if v else 0)
    if isinstance(v, int):
        return z3.IntVal(v)
    if isinstance(v, float):
        if math.isinf(v) or math.isnan(v):
            raise Unsupported('non-finite float %r in symbolic arithmetic' % v)
        return ratval(v)
    if isinstance(v, Fraction):
        return z3.RatVal(v.numerator, v.denominator)
    if _np is not None:
        if isinstance(v, _np.bool_):
            return z3.IntVal(1 if bool(v) else 0)
        if isinstance(v, _np.integer):
            return z3.IntVal(int(v))
        if isinstance(v, _np.floating):
            return toz3(float(v))
    if z3.is_expr(v):
        return v
    raise Unsupported('cannot lift %r (%s) to z3' % (v, type(v).__name__))


def tobool3(v):
    if isinstance(v, SBool):
        return v.t
    if isinstance(v, (bool,)) or (_np is not None and isinstance(v, _np.bool_)):
        return z3.BoolVal(bool(v))
    if z3.is_expr(v) and z3.is_bool(v):
        return v
    if isinstance(v, SNum):
        return v.t != 0
    if isinstance(v, (int, float)):
        return z3.BoolVal(bool(v))
    raise Unsupported('cannot lift %r to z3 Bool' % (v,))


def _real(t):
    return z3.ToReal(t) if z3.is_int(t) else t


def _is_num(t):
    return z3.is_rational_value(t) or z3.is_int_value(t)


def numeral_fraction(t):
    t = z3.simplify(t)
    if z3.is_int_value(t):
        return Fraction(t.as_long())
    if z3.is_rational_value(t):
        return Fraction(t.numerator_as_long(), t.denominator_as_long())
    if z3.is_algebraic_value(t):
        a = t.approx(30)
        return Fraction(a.numerator_as_long(), a.denominator_as_long())
    return None


# --------------------------------------------------------------------------
# proxies
# --------------------------------------------------------------------------
class SBool(object):
    __slots__ = ('t', 'cmp')

    def __init__(self, t, cmp=None):
        self.t = t
        self.cmp = cmp  # (op, lhs, rhs) for robust-model margins

    def __bool__(self):
        c = cur()
        if c is None:
            raise Unsupported('SBool decided outside of a path context')
        return c.decide(self)

    def __and__(self, o):
        return SBool(z3.And(self.t, tobool3(o)))

    __rand__ = __and__

    def __or__(self, o):
        return SBool(z3.Or(self.t, tobool3(o)))

    __ror__ = __or__

    def __invert__(self):
        return SBool(z3.Not(self.t))

    def __eq__(self, o):
        if isinstance(o, (SBool, bool)):
            return SBool(self.t == tobool3(o))
        # comparison with a number: Python compares bool as int
        return SNum(toz3(self)) == o

    def __ne__(self, o):
        if isinstance(o, (SBool, bool)):
            return SBool(self.t != tobool3(o))
        return SNum(toz3(self)) != o

    def __hash__(self):
        raise Unsupported('hash of a symbolic bool')

    # bool is an int in Python: arithmetic on markers
    def _num(self):
        return SNum(toz3(self))

    def __add__(self, o):
        return self._num() + o

    __radd__ = __add__

    def __mul__(self, o):
        return self._num() * o

    __rmul__ = __mul__

    def __neg__(self):
        return -self._num()

    def __abs__(self):
        return self._num()

    def __lt__(self, o):
        return self._num() < o

    def __gt__(self, o):
        return self._num() > o

    def __le__(self, o):
        return self._num() <= o

    def __ge__(self, o):
        return self._num() >= o

    def __repr__(self):
        return 'SBool(%s)' % (self.t,)


def _inf_arith(a, b, op):
    """Arithmetic where one operand is a concrete +-inf and the other a proxy that
    stands for a finite float (IEEE rules for finite operands)."""
    if op == 'add':
        return a if _is_inf(a) else b
    if op == 'sub':
        return a if _is_inf(a) else -b
    if op == 'div':
        if _is_inf(b):
            return 0.0
        s = b
        if bool(s > 0):
            return a
        if bool(s < 0):
            return -a
        raise ZeroDivisionError('float division by zero')
    if op == 'mul':
        inf, s = (a, b) if _is_inf(a) else (b, a)
        if bool(s > 0):
            return inf
        if bool(s < 0):
            return -inf
        raise Unsupported('0 * inf = nan')
    raise Unsupported('inf in %s' % op)


class SNum(object):
    """Symbolic int (z3 Int) or float modelled as a real (z3 Real)."""
    __slots__ = ('t',)
    __array_priority__ = 1000.0

    def __init__(self, t):
        self.t = t

    @property
    def is_int(self):
        return z3.is_int(self.t)

    # ---- arithmetic -----------------------------------------------------
    def _bin(self, other, op, refl):
        a, b = (other, self) if refl else (self, other)
        if _is_inf(a) or _is_inf(b):
            return _inf_arith(a, b, op)
        if isinstance(a, float) and math.isnan(a) or isinstance(b, float) and math.isnan(b):
            raise Unsupported('nan operand')
        try:
            ta, tb = toz3(a), toz3(b)
        except Unsupported:
            return NotImplemented
        c = cur()
        if op == 'add':
            return SNum(ta + tb)
        if op == 'sub':
            return SNum(ta - tb)
        if op == 'mul':
            sa, sb = z3.simplify(ta), z3.simplify(tb)
            if not _is_num(sa) and not _is_num(sb) and c is not None and c.havoc:
                return c.havoc_product(sa, sb)
            return SNum(ta * tb)
        if op == 'div':
            sb = z3.simplify(tb)
            if _is_num(sb):
                if numeral_fraction(sb) == 0:
                    raise ZeroDivisionError('division by zero')
                return SNum(_real(ta) / _real(sb))
            if c is not None and c.check_div:
                if bool(SBool(tb == 0)):
                    raise ZeroDivisionError('float division by zero')
            if c is not None and c.havoc:
                return c.havoc_quotient(ta, tb)
            return SNum(_real(ta) / _real(tb))
        if op in ('floordiv', 'mod'):
            if not (z3.is_int(ta) and z3.is_int(tb)):
                raise Unsupported('// and %% on non-integers')
            sb = z3.simplify(tb)
            if not (z3.is_int_value(sb) and sb.as_long() > 0):
                raise Unsupported('// and %% by a non-constant or non-positive divisor')
            return SNum(ta / tb) if op == 'floordiv' else SNum(ta % tb)
        raise Unsupported(op)

    def __add__(self, o):
        return self._bin(o, 'add', False)

    def __radd__(self, o):
        return self._bin(o, 'add', True)

    def __sub__(self, o):
        return self._bin(o, 'sub', False)

    def __rsub__(self, o):
        return self._bin(o, 'sub', True)

    def __mul__(self, o):
        return self._bin(o, 'mul', False)

    def __rmul__(self, o):
        return self._bin(o, 'mul', True)

    def __truediv__(self, o):
        return self._bin(o, 'div', False)

    def __rtruediv__(self, o):
        return self._bin(o, 'div', True)

    def __floordiv__(self, o):
        return self._bin(o, 'floordiv', False)

    def __mod__(self, o):
        return self._bin(o, 'mod', False)

    def __divmod__(self, o):
        return (self._bin(o, 'floordiv', False), self._bin(o, 'mod', False))

    def __neg__(self):
        return SNum(-self.t)

    def __pos__(self):
        return self

    def __abs__(self):
        return SNum(z3.If(self.t >= 0, self.t, -self.t))

    def __pow__(self, e, mod=None):
        from . import ops
        return ops.spow(self, e)

    def __rpow__(self, b):
        from . import ops
        return ops.spow(b, self)

    # ---- comparisons ------------------------------------------------------
    def _cmp(self, o, op):
        if _is_inf(o):
            pos = o > 0
            res = {'lt': pos, 'le': pos, 'gt': not pos, 'ge': not pos, 'eq': False, 'ne': True}[op]
            return res
        if o is None:
            return {'eq': False, 'ne': True}.get(op, NotImplemented)
        try:
            a, b = self.t, toz3(o)
        except Unsupported:
            return NotImplemented
        if op == 'lt':
            t = a < b
        elif op == 'le':
            t = a <= b
        elif op == 'gt':
            t = a > b
        elif op == 'ge':
            t = a >= b
        elif op == 'eq':
            t = a == b
        else:
            t = a != b
        return SBool(t, (op, a, b))

    def __lt__(self, o):
        return self._cmp(o, 'lt')

    def __le__(self, o):
        return self._cmp(o, 'le')

    def __gt__(self, o):
        return self._cmp(o, 'gt')

    def __ge__(self, o):
        return self._cmp(o, 'ge')

    def __eq__(self, o):
        return self._cmp(o, 'eq')

    def __ne__(self, o):
        return self._cmp(o, 'ne')

    def __hash__(self):
        c = cur()
        if c is not None and c.hash_hook is not None:
            return c.hash_hook(self)
        raise Unsupported('hash of a symbolic number')

    def __bool__(self):
        return bool(SBool(self.t != 0))

    # ---- conversions ----------------------------------------------------------
    def __index__(self):
        c = cur()
        if c is None or not self.is_int:
            raise Unsupported('__index__ on a symbolic real')
        return c.concretize(self)

    def __int__(self):
        if self.is_int:
            return self.__index__()
        raise Unsupported('int() of a symbolic real')

    def __float__(self):
        raise Unsupported('float() of a symbolic number reached C code')

    def __round__(self, ndigits=None):
        from . import ops
        return ops.sround(self, ndigits)

    def round(self, decimals=0, out=None):  # what np.round(x, decimals=k) calls
        from . import ops
        return ops.sround(self, decimals, numpy_style=True)

    def copy(self):
        return self

    def __repr__(self):
        return 'SNum(%s)' % (self.t,)

    # ---- numpy override protocol ---------------------------------------------------
    # numpy applies np.cos / np.sin / ... to an OBJECT array by calling the method of that name on every element
    def cos(self):
        from . import ops
        return ops.scos(self)

    def sin(self):
        from . import ops
        return ops.ssin(self)

    def exp(self):
        from . import ops
        return ops.sexp(self)

    def sqrt(self):
        from . import ops
        return ops.ssqrt(self)

    def fabs(self):
        return abs(self)

    def conjugate(self):
        return self

    def __array_ufunc__(self, ufunc, method, *inputs, **kwargs):
        from . import ops
        if method != '__call__' or kwargs.get('out') is not None:
            return NotImplemented
        return ops.numpy_ufunc(ufunc, inputs, kwargs)


# --------------------------------------------------------------------------
# symbolic path context
# --------------------------------------------------------------------------
class Stats(object):
    FIELDS = ('paths', 'decisions', 'forks', 'queries', 'solver_time', 'max_query',
              'unknown_feas', 'obligations', 'discharged', 'cuts', 'infeasible',
              'validated', 'validation_skipped', 'reach')

    def __init__(self):
        for f in self.FIELDS:
            setattr(self, f, 0)
        self.solver_time = 0.0
        self.max_query = 0.0

    def as_dict(self):
        return {f: getattr(self, f) for f in self.FIELDS}


class Ctx(object):
    """One symbolic path."""
    symbolic = True

    def __init__(self, engine, prefix):
        self.engine = engine
        self.prefix = prefix
        self.trace = []
        self.pc = []            # z3 Bools (decisions + assumptions + lemma instances)
        self.robust = []        # strengthened copies for interior models
        self.solver = z3.Solver()
        self.solver.set('timeout', engine.query_timeout_ms)
        self.solver.set('rlimit', engine.rlimit)   # deterministic backstop: z3's wall-clock timeout is not polled everywhere
        self.model = None
        self.vars = {}          # name -> z3 const (inputs, in creation order)
        self.var_kinds = {}
        self.counter = {}
        self.havoc = engine.mode == 'havoc'
        self.check_div = engine.check_div and engine.domain_checks
        self.domain_checks = engine.domain_checks
        self.hash_hook = None
        self.outputs = []       # (name, value) recorded by the harness
        self.uf_apps = {}       # lemma library registry
        self.events = []
        self.nfresh = 0
        self.square_abs = engine.square_abs
        self.path_checks = []
        self.input_pc = []      # preconditions + decisions only (no lemma instances)
        self.lemma_count = 0

    # ---- inputs -----------------------------------------------------------
    def _name(self, base):
        k = self.counter.get(base, 0)
        self.counter[base] = k + 1
        return base if k == 0 else '%s#%d' % (base, k)

    def real(self, name, lo=None, hi=None, lo_strict=False, hi_strict=False):
        n = self._name(name)
        v = z3.Real(n)
        self.vars[n] = v
        self.var_kinds[n] = 'real'
        x = SNum(v)
        if lo is not None:
            self.assume((x > lo) if lo_strict else (x >= lo))
        if hi is not None:
            self.assume((x < hi) if hi_strict else (x <= hi))
        return x

    def int(self, name, lo=None, hi=None):
        n = self._name(name)
        v = z3.Int(n)
        self.vars[n] = v
        self.var_kinds[n] = 'int'
        x = SNum(v)
        if lo is not None:
            self.assume(x >= lo)
        if hi is not None:
            self.assume(x <= hi)
        return x

    def bool(self, name):
        n = self._name(name)
        v = z3.Bool(n)
        self.vars[n] = v
        self.var_kinds[n] = 'bool'
        return SBool(v)

    def choice(self, name, k):
        """Symbolic index in range(k), concretised by forking."""
        if k <= 0:
            raise Unsupported('choice from an empty range')
        if k == 1:
            return 0
        return self.concretize(self.int(name, 0, k - 1), 0, k - 1)

    def fresh(self, base='tmp', sort='real'):
        """Auxiliary solver variable (not an input; never needed for replay)."""
        self.nfresh += 1
        n = '%s!%d' % (base, self.nfresh)
        return z3.Real(n) if sort == 'real' else z3.Int(n)

    # ---- path condition ---------------------------------------------------------
    def add(self, t):
        self.pc.append(t)
        self.solver.add(t)

    def lemma(self, t):
        self.lemma_count += 1
        self.pc.append(t)
        self.robust.append(t)
        self.solver.add(t)

    def assume(self, cond):
        """Constrain the inputs (precondition).  Does not fork."""
        t = tobool3(cond)
        st = z3.simplify(t)
        if z3.is_true(st):
            return
        self.add(t)
        self.input_pc.append(t)
        self.robust.append(t)
        if self.model is not None and not z3.is_true(self.model.eval(t, model_completion=True)):
            self.model = None
        if z3.is_false(st):
            raise Infeasible()

    def _query(self, extra):
        st = self.engine.stats
        t0 = time.time()
        self.solver.push()
        try:
            for e in extra:
                self.solver.add(e)
            r = self.solver.check()
            m = self.solver.model() if r == z3.sat else None
        finally:
            self.solver.pop()
        dt = time.time() - t0
        st.queries += 1
        st.solver_time += dt
        if dt > st.max_query:
            st.max_query = dt
        return r, m

    def _feasible(self, t):
        if self.model is not None:
            v = self.model.eval(t, model_completion=True)
            if z3.is_true(v):
                return True, self.model
        r, m = self._query([t])
        if r == z3.sat:
            return True, m
        if r == z3.unknown:
            self.engine.stats.unknown_feas += 1
            return True, None
        return False, None

    def _take(self, t, d, sb):
        lit = t if d else z3.Not(t)
        self.trace.append(d)
        self.add(lit)
        self.input_pc.append(lit)
        self.robust.append(_robust_literal(sb, d, lit, self.engine.margin))
        self.engine.stats.decisions += 1

    def decide(self, sb):
        t = z3.simplify(sb.t)
        if z3.is_true(t):
            return True
        if z3.is_false(t):
            return False
        i = len(self.trace)
        if i < len(self.prefix):
            d = self.prefix[i]
            self._take(t, d, sb)
            if self.model is not None and not z3.is_true(
                    self.model.eval(t if d else z3.Not(t), model_completion=True)):
                self.model = None
            return d
        if i >= self.engine.max_depth:
            raise PathCut('depth>%d' % self.engine.max_depth)
        ft, mt = self._feasible(t)
        if ft:
            ff, mf = self._feasible(z3.Not(t))
        else:
            ff, mf = True, None   # pc is satisfiable, so the other side is
        if ft and ff:
            self.engine.stats.forks += 1
            self.engine.push(tuple(self.trace) + (False,))
            d = True
            self.model = mt
        elif ft:
            d = True
            self.model = mt
        else:
            d = False
            self.model = mf
        self._take(t, d, sb)
        return d

    def concretize(self, x, lo=None, hi=None):
        """Concrete Python int for a bounded symbolic int, by forking."""
        if not isinstance(x, SNum):
            return int(x)
        st = z3.simplify(x.t)
        if z3.is_int_value(st):
            return st.as_long()
        n = 0
        while True:
            n += 1
            if n > self.engine.max_concretize:
                raise Unsupported('unbounded concretisation of %s' % (x.t,))
            if self.model is None:
                r, m = self._query([])
                if r != z3.sat:
                    raise Infeasible() if r == z3.unsat else Unsupported('unknown in concretize')
                self.model = m
            v = self.model.eval(x.t, model_completion=True)
            if not z3.is_int_value(v):
                raise Unsupported('non-integer concretisation')
            val = v.as_long()
            if bool(SBool(x.t == val)):
                return val

    # ---- harness services ---------------------------------------------------------
    def output(self, name, value):
        self.outputs.append((name, value))

    def note(self, key, value):
        """Free-form remark that ends up in the evidence file (e.g. cross-engine results)."""
        if not self.engine.dry:
            self.engine.notes.setdefault(key, []).append(value)

    def event(self, name):
        self.events.append(name)

    def cut(self, reason):
        raise PathCut(reason)

    def havoc_product(self, sa, sb):
        v = self.fresh('hv')
        if self.square_abs and sa.eq(sb):
            self.lemma(v >= 0)
        return SNum(v)

    def havoc_quotient(self, ta, tb):
        return SNum(self.fresh('hq'))

    def reach(self, name='assert'):
        self.engine.stats.reach += 1
        self.engine.reached.add(name)

    def check(self, name, violated, concrete=None, margin=None, note=None, witness=None):
        """Obligation: `violated` must be unsatisfiable under the path condition.

        `violated` is a polymorphic boolean (SBool / z3 Bool / Python bool).  In
        concrete mode the same expression (or `concrete()`, if given) is evaluated on
        floats."""
        eng = self.engine
        st = eng.stats
        if eng.dry:
            return True
        st.obligations += 1
        self.reach(name)
        t = tobool3(violated)
        ts = z3.simplify(t)
        if z3.is_false(ts):
            st.discharged += 1
            eng.note_sample(self, name, ts, 'unsat(trivial)')
            return True
        self.solver.set('timeout', eng.first_timeout_ms)
        try:
            r, m = self._query([t])
        finally:
            self.solver.set('timeout', eng.query_timeout_ms)
        if r == z3.unknown:
            r, m = self._fresh_solve(t)
        if r == z3.unsat:
            st.discharged += 1
            eng.note_sample(self, name, t, 'unsat')
            if eng.cross_left > 0:
                eng.cross_left -= 1
                self._cross_check(name, t)
            return True
        if r == z3.sat:
            # prefer an interior model (survives rounding to doubles)
            rm = self._robust_model(t)
            if witness is not None:
                # the verdict is decided by `violated`; for the counterexample a model of the STRONGER formula
                # `witness` (e.g. the identity off by more than the replay tolerance) is preferred
                wr, wm = self._fresh_solve(z3.And(t, tobool3(witness)))
                if wr == z3.sat and wm is not None:
                    rm = wm
            first = self.assignment(rm if rm is not None else m)
            eng.candidates.append({
                'check': name, 'config': eng.config_name, 'note': note, 'assignment': first,
                'robust': rm is not None, 'trace_len': len(self.trace)})
            if rm is not None:
                second = self.assignment(m)
                if second != first:     # a second, different witness raises the chance of a reproducing replay
                    eng.candidates.append({'check': name, 'config': eng.config_name, 'note': note, 'assignment': second,
                                           'robust': False, 'trace_len': len(self.trace), 'alternative': True})
            return False
        eng.inconclusive.append({'check': name, 'config': eng.config_name, 'why': 'solver unknown'})
        return False

    def _cross_check(self, name, t):
        """Re-decide a discharged obligation with cvc5 (second solver).  `unsat` = agreement,
        `unknown`/timeout is recorded and decides nothing, `sat` is a harness error."""
        eng = self.engine
        import os
        import subprocess
        import tempfile
        path = None
        try:
            s = z3.Solver()
            for p in self.pc:
                s.add(p)
            s.add(t)
            fd, path = tempfile.mkstemp(suffix='.smt2')
            with os.fdopen(fd, 'w') as f:
                f.write(s.to_smt2())
            # separate process: cvc5 does not always honour its time limit (an NRA+UF obligation of C16 ran
            # for more than 15 minutes under tlimit-per=10000), a subprocess can be killed
            r = subprocess.run([sys.executable, '-m', 'symx.cvc5_check', path], capture_output=True, text=True, timeout=25,
                               cwd=os.path.dirname(os.path.dirname(os.path.abspath(__file__))))
            res = (r.stdout.strip().splitlines() or ['error:no-output'])[-1]
            if res not in ('sat', 'unsat', 'unknown'):
                res = 'error:' + res[:40]
        except subprocess.TimeoutExpired:
            res = 'unknown(killed after 25s)'
        except Exception as e:      # parser / option differences: recorded, decides nothing
            res = 'error:%s' % type(e).__name__
        finally:
            if path is not None and os.path.exists(path):
                os.remove(path)
        eng.notes.setdefault('cross_engine_cvc5', []).append([eng.config_name, name, res])
        if res == 'sat':
            eng.inconclusive.append({'check': name, 'config': eng.config_name, 'why': 'z3 says unsat, cvc5 says sat'})

    def _fresh_solve(self, t):
        """Portfolio for an obligation the incremental solver could not decide: the
        nlsat-based tactic first (decides most polynomial identities in well under a
        second), then a fresh default solver."""
        st = self.engine.stats
        r, m = z3.unknown, None
        for mk in (lambda: z3.Tactic('qfnra-nlsat').solver(), lambda: z3.Solver()):
            try:
                s = mk()
            except z3.Z3Exception:
                continue
            s.set('timeout', self.engine.final_timeout_ms)
            s.set('rlimit', self.engine.rlimit)
            for p in self.pc:
                s.add(p)
            s.add(t)
            t0 = time.time()
            try:
                r = s.check()
            except z3.Z3Exception:
                r = z3.unknown
            dt = time.time() - t0
            st.queries += 1
            st.solver_time += dt
            st.max_query = max(st.max_query, dt)
            if r == z3.sat:
                try:
                    m = s.model()
                except z3.Z3Exception:
                    r = z3.unknown
                    continue
            if r != z3.unknown:
                break
        return r, m

    def _robust_model(self, extra=None):
        s = z3.Solver()
        s.set('timeout', min(5000, self.engine.query_timeout_ms))
        s.set('rlimit', self.engine.rlimit // 10)
        for p in self.robust:
            s.add(p)
        if extra is not None:
            s.add(extra)
        t0 = time.time()
        r = s.check()
        self.engine.stats.solver_time += time.time() - t0
        self.engine.stats.queries += 1
        return s.model() if r == z3.sat else None

    def assignment(self, model):
        out = {}
        for n, v in self.vars.items():
            val = model.eval(v, model_completion=True)
            kind = self.var_kinds[n]
            if kind == 'bool':
                out[n] = bool(z3.is_true(val))
            elif kind == 'int':
                out[n] = val.as_long() if z3.is_int_value(val) else 0
            else:
                fr = numeral_fraction(val)
                out[n] = [str(fr.numerator), str(fr.denominator)] if fr is not None else ['0', '1']
        return out

    def input_model(self):
        """A model of the preconditions and decisions alone (lemma instances left out: they
        are true facts, so any input is consistent with them in reality).  Cheap; used for
        tentative candidates that are replayed on the real code anyway."""
        s = z3.Solver()
        s.set('timeout', 5000)
        s.set('rlimit', self.engine.rlimit // 10)
        for p in self.input_pc:
            s.add(p)
        self.engine.stats.queries += 1
        return s.model() if s.check() == z3.sat else None

    def final_model(self, robust=True):
        if robust:
            m = self._robust_model()
            if m is not None:
                return m, True
        if self.model is not None:
            return self.model, False
        r, m = self._query([])
        return (m, False) if r == z3.sat else (None, False)


def _robust_literal(sb, d, lit, margin):
    """Strengthen a decided comparison by a margin so that a model of the robust
    path condition stays on the same side after rounding to doubles."""
    cmp = getattr(sb, 'cmp', None)
    if cmp is None:
        return lit
    op, a, b = cmp
    m = z3.RealVal(margin)
    if not d:
        op = {'lt': 'ge', 'le': 'gt', 'gt': 'le', 'ge': 'lt', 'eq': 'ne', 'ne': 'eq'}[op]
    if z3.is_int(a) and z3.is_int(b):
        return lit
    a, b = _real(a), _real(b)
    if op in ('lt', 'le'):
        return z3.Or(a + m <= b, a == b) if op == 'le' else (a + m <= b)
    if op in ('gt', 'ge'):
        return z3.Or(a >= b + m, a == b) if op == 'ge' else (a >= b + m)
    if op == 'ne':
        return z3.Or(a + m <= b, a >= b + m)
    return lit


# --------------------------------------------------------------------------
# concrete context (replay / translator validation)
# --------------------------------------------------------------------------
class ConcreteCtx(object):
    symbolic = False

    def __init__(self, assignment, defaults_mid=True):
        self.assign = assignment
        self.counter = {}
        self.outputs = []
        self.events = []
        self.checks = []        # (name, violated_bool)
        self.hash_hook = None
        self.havoc = False
        self.missing = []

    def _name(self, base):
        k = self.counter.get(base, 0)
        self.counter[base] = k + 1
        return base if k == 0 else '%s#%d' % (base, k)

    def _val(self, n, default):
        if n in self.assign:
            v = self.assign[n]
            if isinstance(v, (list, tuple)):
                return float(Fraction(int(v[0]), int(v[1])))
            return v
        self.missing.append(n)
        return default

    def real(self, name, lo=None, hi=None, lo_strict=False, hi_strict=False):
        n = self._name(name)
        if lo is not None and hi is not None:
            d = (float(lo) + float(hi)) / 2
        elif lo is not None:
            d = float(lo) + 1.0
        elif hi is not None:
            d = float(hi) - 1.0
        else:
            d = 0.0
        return float(self._val(n, d))

    def int(self, name, lo=None, hi=None):
        n = self._name(name)
        return int(self._val(n, lo if lo is not None else 0))

    def bool(self, name):
        return bool(self._val(self._name(name), False))

    def choice(self, name, k):
        if k <= 1:
            if k <= 0:
                raise Unsupported('choice from an empty range')
            return 0
        return int(self._val(self._name(name), 0))

    def assume(self, cond):
        if not cond:
            raise Infeasible()

    def lemma(self, t):
        pass

    def concretize(self, x, lo=None, hi=None):
        return int(x)

    def output(self, name, value):
        self.outputs.append((name, value))

    def event(self, name):
        self.events.append(name)

    def note(self, key, value):
        pass

    def cut(self, reason):
        raise PathCut(reason)

    def reach(self, name='assert'):
        pass

    def check(self, name, violated, concrete=None, margin=None, note=None, witness=None):
        v = concrete() if concrete is not None else violated
        self.checks.append((name, bool(v)))
        return not v


# --------------------------------------------------------------------------
# exploration
# --------------------------------------------------------------------------
class Engine(object):
    def __init__(self, config_name='', mode='precise', max_depth=600, query_timeout_s=60,
                 final_timeout_s=60, first_timeout_s=4, check_div=True, max_paths=None, margin=1e-6,
                 square_abs=False, max_concretize=64, validate=200, budget_s=None, dry=False, domain_checks=True, path_timeout_s=300, cross_solver=0):
        self.config_name = config_name
        self.mode = mode
        self.max_depth = max_depth
        self.query_timeout_ms = int(query_timeout_s * 1000)
        self.final_timeout_ms = int(final_timeout_s * 1000)
        self.first_timeout_ms = int(first_timeout_s * 1000)
        self.check_div = check_div
        self.max_paths = max_paths
        self.margin = margin
        self.square_abs = square_abs
        self.max_concretize = max_concretize
        self.validate = validate
        self.budget_s = budget_s
        self.dry = dry
        self.domain_checks = domain_checks
        self.path_timeout_s = int(path_timeout_s)
        self.cross_left = int(cross_solver)
        self.rlimit = int(max(query_timeout_s, final_timeout_s) * 4000000)
        self.stats = Stats()
        self.work = []
        self.candidates = []
        self.inconclusive = []
        self.samples = []
        self.reached = set()
        self.cut_reasons = {}
        self.notes = {}
        self.uncaught = []
        self.validation_failures = []
        self.bfs = False
        self.exhausted = True
        self.lemmas = 0

    def push(self, prefix):
        self.work.append(prefix)

    def note_sample(self, ctx, name, t, verdict):
        if len(self.samples) < 3:
            pcs = [str(z3.simplify(p)) for p in ctx.pc[:12]]
            s = str(t)
            self.samples.append({'config': self.config_name, 'check': name,
                                 'path_condition_head': [p[:300] for p in pcs],
                                 'negated_property': s[:600], 'verdict': verdict,
                                 'decisions': len(ctx.trace)})

    def run_path(self, body, prefix):
        ctx = Ctx(self, prefix)
        set_ctx(ctx)
        from . import ops as _ops
        _ops.configure()          # optional lemma groups back to their defaults for every path
        outcome = None
        import signal

        def _alarm(signum, frame):
            raise Unsupported('path exceeded %ds (non-terminating code under test?)' % self.path_timeout_s)
        old_handler = None
        try:
            old_handler = signal.signal(signal.SIGALRM, _alarm)
            signal.alarm(self.path_timeout_s)
        except (ValueError, AttributeError):
            old_handler = None
        try:
            try:
                body(ctx)
                outcome = ('ok', None)
            except PathCut as e:
                self.stats.cuts += 1
                self.cut_reasons[e.reason] = self.cut_reasons.get(e.reason, 0) + 1
                outcome = ('cut', e.reason)
            except Infeasible:
                self.stats.infeasible += 1
                outcome = ('infeasible', None)
            except Unsupported as e:
                self.inconclusive.append({'check': 'unsupported', 'config': self.config_name,
                                          'why': str(e)[:300]})
                outcome = ('unsupported', str(e))
            except Exception as e:   # escaped from the code under test -- or from the harness itself
                import traceback
                tb = traceback.extract_tb(e.__traceback__)
                where = '%s:%d' % (tb[-1].filename, tb[-1].lineno) if tb else '?'
                # innermost frame that is not engine code decides whose exception this is: raised while
                # artap code was running -> candidate violation; raised by harness code (e.g. an internal
                # function was renamed by a refactoring) -> harness error, never a VIOLATION
                origin = None
                for fr in reversed(tb):
                    fn = fr.filename
                    if '/symx/' in fn or fn.startswith('<'):
                        continue
                    # library frames (json, numpy, sqlite3 ...) say nothing about WHO made the failing call: keep
                    # walking outwards until a frame of the code under test or of the harness is reached
                    if '/artap/' not in fn and '/props/' not in fn:
                        continue
                    origin = fn
                    break
                if origin is not None and ('/props/' in origin and '/artap/' not in origin):
                    self.inconclusive.append({'check': 'harness-exception', 'config': self.config_name,
                                              'why': '%s: %s at %s' % (type(e).__name__, str(e)[:200], where)})
                    outcome = ('harness-exc', e)
                    self.stats.paths += 1
                    self.lemmas += ctx.lemma_count
                    return ctx, outcome
                m, rob = ctx.final_model()
                self.candidates.append({
                    'check': 'uncaught-exception:%s' % type(e).__name__, 'config': self.config_name,
                    'note': '%s at %s' % (str(e)[:200], where),
                    'assignment': ctx.assignment(m) if m is not None else {},
                    'robust': rob, 'trace_len': len(ctx.trace)})
                outcome = ('exc', e)
        finally:
            try:
                signal.alarm(0)
                if old_handler is not None:
                    signal.signal(signal.SIGALRM, old_handler)
            except (ValueError, AttributeError):
                pass
            set_ctx(None)
        self.stats.paths += 1
        self.lemmas += ctx.lemma_count
        return ctx, outcome

    def explore(self, body, seeds=None, concrete_body=None, stop_after=None):
        """Exhaustive exploration.  Returns the list of pending prefixes (empty when
        exhaustive)."""
        self.work = list(seeds) if seeds is not None else [()]
        t0 = time.time()
        done = 0
        while self.work:
            if stop_after is not None and done >= stop_after:
                break
            if self.max_paths is not None and self.stats.paths >= self.max_paths:
                self.exhausted = False
                self.inconclusive.append({'check': 'path-budget', 'config': self.config_name,
                                          'why': 'max_paths=%d reached' % self.max_paths})
                break
            if self.budget_s is not None and time.time() - t0 > self.budget_s:
                self.exhausted = False
                self.inconclusive.append({'check': 'time-budget', 'config': self.config_name,
                                          'why': 'budget %ss exceeded' % self.budget_s})
                break
            prefix = self.work.pop(0) if self.bfs else self.work.pop()
            ctx, outcome = self.run_path(body, prefix)
            done += 1
            if outcome[0] == 'ok' and self.stats.validated + self.stats.validation_skipped < self.validate:
                self._validate(body, ctx)
        pending = list(self.work)
        self.work = []
        return pending

    # translator validation: run the same body on real floats from a model of the
    # (robust) path condition and compare the recorded outputs.
    def _validate(self, body, ctx):
        if not ctx.outputs and not ctx.vars:
            self.stats.validation_skipped += 1
            return
        m, rob = ctx.final_model()
        if m is None or not rob:
            self.stats.validation_skipped += 1
            return
        assign = ctx.assignment(m)
        cc = ConcreteCtx(assign)
        set_ctx(cc)
        try:
            try:
                body(cc)
            except EngineAbort:
                self.stats.validation_skipped += 1
                return
            except Exception as e:
                self.validation_failures.append({'config': self.config_name,
                                                 'why': 'concrete run raised %r' % (e,), 'assignment': assign})
                return
        finally:
            set_ctx(None)
        bad = [n for (n, v) in cc.checks if v]
        if bad:
            self.validation_failures.append({'config': self.config_name,
                                             'why': 'checks discharged symbolically fail concretely: %s' % bad,
                                             'assignment': assign})
            return
        if len(cc.outputs) != len(ctx.outputs):
            self.validation_failures.append({'config': self.config_name,
                                             'why': 'output count differs %d vs %d' % (len(cc.outputs), len(ctx.outputs)),
                                             'assignment': assign})
            return
        env = _FloatEnv(assign)
        # the model interprets uninterpreted functions freely (within the lemmas): compare only
        # when the real functions drive the concrete run down the same path
        try:
            same_path = all(float_eval(lit, env.env, env.memo) is True or float_eval(lit, env.env, env.memo) == True  # noqa: E712
                            for lit in ctx.input_pc)
        except (KeyError, ZeroDivisionError, OverflowError, ValueError, TypeError):
            same_path = False
        if not same_path:
            self.stats.validation_skipped += 1
            return
        for (n1, v1), (n2, v2) in zip(ctx.outputs, cc.outputs):
            if not _outputs_agree(env, v1, v2):
                self.validation_failures.append({'config': self.config_name,
                                                 'why': 'output %s differs: symbolic %s vs concrete %r' % (n1, _evalstr(env, v1), v2),
                                                 'assignment': assign})
                return
        self.stats.validated += 1


UF_FLOAT = {}   # uninterpreted function name -> python float function (filled by ops)


def float_eval(t, env, memo=None):
    """Evaluate a z3 term on floats: variables from env (name -> float/int/bool),
    uninterpreted functions through their real counterparts in UF_FLOAT.  Used by the
    translator validation, so that encodings with uninterpreted sin/cos/exp/... are
    compared with what the real code computes."""
    if memo is None:
        memo = {}
    key = t.get_id()
    if key in memo:
        return memo[key]
    r = _float_eval(t, env, memo)
    memo[key] = r
    return r


def _float_eval(t, env, memo):
    if z3.is_int_value(t):
        return t.as_long()
    if z3.is_rational_value(t):
        return t.numerator_as_long() / t.denominator_as_long()
    if z3.is_true(t):
        return True
    if z3.is_false(t):
        return False
    if z3.is_const(t) and t.decl().kind() == z3.Z3_OP_UNINTERPRETED:
        n = t.decl().name()
        if n in env:
            v = env[n]
            if isinstance(v, (list, tuple)):
                v = float(Fraction(int(v[0]), int(v[1])))
            return v
        if n == 'PI':
            return math.pi
        if n == 'EULER':
            return math.e
        raise KeyError(n)
    k = t.decl().kind()
    ch = [float_eval(c, env, memo) for c in t.children()]
    if k == z3.Z3_OP_ADD:
        return sum(ch)
    if k == z3.Z3_OP_SUB:
        r = ch[0]
        for c in ch[1:]:
            r = r - c
        return r
    if k == z3.Z3_OP_UMINUS:
        return -ch[0]
    if k == z3.Z3_OP_MUL:
        r = 1
        for c in ch:
            r = r * c
        return r
    if k in (z3.Z3_OP_DIV,):
        return ch[0] / ch[1]
    if k == z3.Z3_OP_IDIV:
        return ch[0] // ch[1]
    if k == z3.Z3_OP_MOD:
        return ch[0] % ch[1]
    if k == z3.Z3_OP_TO_REAL:
        return ch[0]
    if k == z3.Z3_OP_TO_INT:
        return math.floor(ch[0])
    if k == z3.Z3_OP_POWER:
        return ch[0] ** ch[1]
    if k == z3.Z3_OP_ITE:
        return ch[1] if ch[0] else ch[2]
    if k == z3.Z3_OP_LE:
        return ch[0] <= ch[1]
    if k == z3.Z3_OP_LT:
        return ch[0] < ch[1]
    if k == z3.Z3_OP_GE:
        return ch[0] >= ch[1]
    if k == z3.Z3_OP_GT:
        return ch[0] > ch[1]
    if k == z3.Z3_OP_EQ:
        return ch[0] == ch[1]
    if k == z3.Z3_OP_DISTINCT:
        return len(set(ch)) == len(ch)
    if k == z3.Z3_OP_AND:
        return all(ch)
    if k == z3.Z3_OP_OR:
        return any(ch)
    if k == z3.Z3_OP_NOT:
        return not ch[0]
    if k == z3.Z3_OP_IMPLIES:
        return (not ch[0]) or ch[1]
    if k == z3.Z3_OP_UNINTERPRETED:
        f = UF_FLOAT.get(t.decl().name())
        if f is None:
            raise KeyError(t.decl().name())
        return f(*ch)
    raise KeyError('op %s' % t.decl().name())


class _FloatEnv(object):
    def __init__(self, assign):
        self.env = assign
        self.memo = {}


def _evalnum(m, v):
    if isinstance(v, (SNum, SBool)):
        try:
            return float_eval(v.t, m.env, m.memo)
        except (KeyError, ZeroDivisionError, OverflowError, ValueError, TypeError):
            return None   # auxiliary solver variable / undefined: nothing to compare
    return v


def _evalstr(m, v):
    if isinstance(v, (list, tuple)):
        return [_evalstr(m, x) for x in v]
    return _evalnum(m, v)


def _outputs_agree(m, a, b, tol=1e-6):
    if isinstance(a, (list, tuple)) or isinstance(b, (list, tuple)):
        try:
            la, lb = list(a), list(b)
        except TypeError:
            return False
        return len(la) == len(lb) and all(_outputs_agree(m, x, y, tol) for x, y in zip(la, lb))
    a = _evalnum(m, a)
    if a is None:
        return True   # uninterpreted value: nothing to compare
    if isinstance(a, bool) or isinstance(b, bool):
        return bool(a) == bool(b)
    if isinstance(a, (int, float)) and isinstance(b, (int, float)) or (_np is not None and isinstance(b, _np.generic)):
        a, b = float(a), float(b)
        if math.isinf(a) or math.isinf(b):
            return a == b
        return abs(a - b) <= tol * max(1.0, abs(a), abs(b))
    return a == b


def run_concrete(body, assignment):
    """Replay: run the harness body on real floats.  Returns (violated checks,
    raised exception or None, ctx)."""
    cc = ConcreteCtx(assignment)
    set_ctx(cc)
    exc = None
    try:
        try:
            body(cc)
        except EngineAbort as e:
            exc = e
        except Exception as e:
            exc = e
    finally:
        set_ctx(None)
    return [n for (n, v) in cc.checks if v], exc, cc


# --------------------------------------------------------------------------
# function summaries
# --------------------------------------------------------------------------
class Summary(object):
    """ite-term summary of a small pure function, from an exhaustive exploration of
    the real function on fresh symbolic arguments."""

    def __init__(self, name, formals, term, npaths, is_int):
        self.name = name
        self.formals = formals
        self.term = term
        self.npaths = npaths
        self.is_int = is_int

    def apply(self, actuals):
        subs = []
        for f, a in zip(self.formals, actuals):
            ta = toz3(a)
            if z3.is_real(f) and z3.is_int(ta):
                ta = z3.ToReal(ta)
            subs.append((f, ta))
        return SNum(z3.substitute(self.term, *subs))


def summarize(name, fn, nargs, sort='real', max_paths=20000, assume=None):
    """Explore fn(*formals) exhaustively; fn must return a number (int code or
    real).  Returns a Summary or raises Unsupported if the function cannot be
    summarised (exception path, cut)."""
    eng = Engine(config_name='summary:' + name, validate=0, max_paths=max_paths)
    results = []
    formals_box = []

    def body(ctx):
        formals = [ctx.real('%s_a%d' % (name, i)) if sort == 'real' else ctx.int('%s_a%d' % (name, i))
                   for i in range(nargs)]
        if not formals_box:
            formals_box.append([f.t for f in formals])
        if assume is not None:
            assume(ctx, formals)
        r = fn(*formals)
        results.append((list(ctx.pc), r))

    pending = eng.explore(body)
    if pending or eng.candidates or eng.inconclusive or eng.stats.cuts:
        raise Unsupported('cannot summarise %s: %s' % (name, (eng.candidates or eng.inconclusive)[:1]))
    term = None
    is_int = True
    for pc, r in results:
        tr = toz3(r)
        if not z3.is_int(tr):
            is_int = False
    for pc, r in reversed(results):
        tr = toz3(r)
        if not is_int:
            tr = _real(tr)
        if term is None:
            term = tr
        else:
            term = z3.If(z3.And(*pc) if pc else z3.BoolVal(True), tr, term)
    return Summary(name, formals_box[0], term, len(results), is_int), eng.stats
