"""Environment stubs.  They are installed by assigning module globals of the imported
artap modules from the harness (never by editing /repo) and they forward everything
they do not model to the real module, so that e.g. `np.infty` still raises on NumPy 2.

Every stub works in both engine modes: with a symbolic path context a draw is a
fresh solver variable inside its documented range, with a concrete context (replay,
translator validation) it is the scripted value from the model, and without any
context the real function is called."""
import contextlib
import math
import random as _random
import time as _time

import numpy as _np

from . import ops
from . import core
from .core import cur, SNum, Unsupported


class Shim(object):
    """Module look-alike: overrides first, then the real module."""

    def __init__(self, real, **over):
        object.__setattr__(self, '_real', real)
        object.__setattr__(self, '_over', dict(over))

    def __getattr__(self, name):
        over = object.__getattribute__(self, '_over')
        if name in over:
            v = over[name]
            if isinstance(v, _Dynamic):
                return v.fn()
            return v
        return getattr(object.__getattribute__(self, '_real'), name)


class _Dynamic(object):
    def __init__(self, fn):
        self.fn = fn


# ---- random ---------------------------------------------------------------------
def s_random():
    c = cur()
    if c is None:
        return _random.random()
    return c.real('rnd', 0, 1, hi_strict=True)


def s_uniform(a, b):
    c = cur()
    if c is None:
        return _random.uniform(a, b)
    if isinstance(a, SNum) or isinstance(b, SNum):
        v = c.real('uni')
        c.assume(ops.And(v >= ops.smin(a, b), v <= ops.smax(a, b)))
        return v
    lo, hi = (a, b) if a <= b else (b, a)
    return c.real('uni', lo, hi)


def s_sample(population, k):
    c = cur()
    if c is None:
        return _random.sample(population, k)
    pop = list(population)
    n = len(pop)
    if k > n:
        raise ValueError('Sample larger than population or is negative')
    idx = []
    avail = list(range(n))
    for r in range(k):
        j = c.choice('smp', len(avail))
        idx.append(avail.pop(j))
    return [pop[i] for i in idx]


def s_choice(seq):
    c = cur()
    if c is None:
        return _random.choice(seq)
    if len(seq) == 0:
        raise IndexError('Cannot choose from an empty sequence')
    return seq[c.choice('chc', len(seq))]


random_shim = Shim(_random, random=s_random, uniform=s_uniform, sample=s_sample, choice=s_choice)


# ---- math ---------------------------------------------------------------------------
def m_pow(a, b):
    if isinstance(a, SNum) or isinstance(b, SNum):
        return ops.spow(a, b)
    return math.pow(a, b)


def m_isfinite(x):
    return True if isinstance(x, SNum) else math.isfinite(x)      # a proxy denotes a (finite) real number


def m_isinf(x):
    return False if isinstance(x, SNum) else math.isinf(x)


def m_isnan(x):
    return False if isinstance(x, SNum) else math.isnan(x)


def m_isclose(a, b, rel_tol=1e-09, abs_tol=0.0):
    if not (isinstance(a, SNum) or isinstance(b, SNum)):
        return math.isclose(a, b, rel_tol=rel_tol, abs_tol=abs_tol)
    if core._is_inf(a) or core._is_inf(b):
        return False                      # a proxy is finite: never close to an infinity
    d = abs(a - b)
    return ops.And(d <= ops.smax(rel_tol * ops.smax(abs(a), abs(b)), abs_tol))


math_shim = Shim(math, isclose=m_isclose, sin=ops.ssin, cos=ops.scos, exp=ops.sexp, sqrt=ops.ssqrt, pow=m_pow,
                 fabs=ops.sfabs, isfinite=m_isfinite, isinf=m_isinf, isnan=m_isnan)


# ---- numpy ---------------------------------------------------------------------------
def _dt(dtype):
    """`float` / `int` may themselves be shimmed in the calling module (ops.sfloat / ops.sint): numpy must see the types."""
    if dtype is ops.sfloat:
        return float
    if dtype is ops.sint:
        return int
    return dtype


def n_zeros(shape, dtype=None, *a, **k):
    dtype = _dt(dtype)
    c = cur()
    if c is not None and c.symbolic and dtype is None:
        arr = _np.empty(shape, dtype=object)
        arr.fill(0.0)
        return arr
    return _np.zeros(shape, *(() if dtype is None else (dtype,)), *a, **k)


def n_zeros_like(a, dtype=None, *args, **k):
    dtype = _dt(dtype)
    if isinstance(a, _np.ndarray) and a.dtype == object and dtype is None:
        arr = _np.empty(a.shape, dtype=object)
        arr.fill(0.0)
        return arr
    return _np.zeros_like(a, *(() if dtype is None else (dtype,)), *args, **k)


def _floatish(dtype):
    return dtype is None or dtype is float or dtype == _np.float64


def _has_proxy(a):
    if isinstance(a, _np.ndarray):
        return a.dtype == object and any(isinstance(v, (SNum, core.SBool)) for v in a.flat)
    if isinstance(a, (list, tuple)):
        return any(_has_proxy(v) for v in a)
    return isinstance(a, (SNum, core.SBool))


def n_asarray(a, dtype=None, *args, **k):
    """np.asarray on data that holds proxies: an object array stands for the float array.  The ALIASING of the real
    function is kept: an ndarray that already has the requested type is returned itself (a view), a list is copied."""
    dtype = _dt(dtype)
    if _floatish(dtype) and _has_proxy(a):
        if isinstance(a, _np.ndarray):
            return a
        return _np.array(a, dtype=object)
    return _np.asarray(a, *(() if dtype is None else (dtype,)), *args, **k)


def n_array(a, dtype=None, *args, **k):
    dtype = _dt(dtype)
    if _floatish(dtype) and _has_proxy(a):
        return n_asarray(list(a), dtype).copy()
    return _np.array(a, *(() if dtype is None else (dtype,)), *args, **k)


def n_round(a, decimals=0, out=None):
    """np.round / np.around on an object array of proxies: element-wise numpy-style rounding (same uninterpreted
    NPROUNDn as for scalars); `out=` keeps its in-place meaning."""
    if isinstance(a, _np.ndarray) and _has_proxy(a):
        res = out if out is not None else _np.empty(a.shape, dtype=object)
        for idx in _np.ndindex(*a.shape):
            res[idx] = ops.sround(a[idx], decimals, numpy_style=True) if isinstance(a[idx], SNum) else _np.round(a[idx], decimals)
        return res
    if out is not None:
        return _np.round(a, decimals, out=out)
    return _np.round(a, decimals)


def _elementwise(real, scalar_fn):
    """A numpy function without an object loop (copysign, sign, ...): element-wise on object arrays / proxies, the real
    function otherwise."""
    def f(*args, **k):
        if not any(_has_proxy(a) for a in args):
            return real(*args, **k)
        arrs = [_np.asarray(a, dtype=object) if isinstance(a, (list, tuple, _np.ndarray)) else a for a in args]
        shapes = [a.shape for a in arrs if isinstance(a, _np.ndarray) and a.ndim > 0]
        if not shapes:
            return scalar_fn(*[a.item() if isinstance(a, _np.ndarray) else a for a in arrs])
        out = _np.empty(shapes[0], dtype=object)
        for idx in _np.ndindex(*shapes[0]):
            out[idx] = scalar_fn(*[a[idx] if isinstance(a, _np.ndarray) and a.ndim > 0 else a for a in arrs])
        return out
    return f


def _s_copysign(a, b):
    # sign bit of b (a proxy is a real: -0.0 does not exist there; concrete -0.0 is respected)
    if isinstance(b, SNum):
        return ops.ite(b >= 0, abs(a), -abs(a))
    return abs(a) if math.copysign(1.0, b) > 0 else -abs(a)


def _s_sign(a):
    return ops.ite(a > 0, 1.0, ops.ite(a < 0, -1.0, 0.0)) if isinstance(a, SNum) else _np.sign(a)


n_copysign = _elementwise(_np.copysign, _s_copysign)
n_sign = _elementwise(_np.sign, _s_sign)

numpy_shim = Shim(_np, copysign=n_copysign, sign=n_sign, zeros=n_zeros, zeros_like=n_zeros_like, asarray=n_asarray, array=n_array, round=n_round, around=n_round)
# for modules that also build integer / index matrices with np.zeros: only the conversions that must let proxies through
numpy_shim_light = Shim(_np, copysign=n_copysign, sign=n_sign, asarray=n_asarray, array=n_array, round=n_round, around=n_round)


# ---- time -----------------------------------------------------------------------------
time_shim = Shim(_time, time=lambda: 0.0)


# ---- installation ----------------------------------------------------------------------
@contextlib.contextmanager
def patched(*assignments):
    """patched((module, 'name', value), ...) -- sets module globals / attributes and
    restores them afterwards."""
    saved = []
    missing = object()
    try:
        for mod, name, val in assignments:
            old = mod.__dict__.get(name, missing) if hasattr(mod, '__dict__') else getattr(mod, name, missing)
            saved.append((mod, name, old))
            setattr(mod, name, val)
        yield
    finally:
        for mod, name, old in reversed(saved):
            if old is missing:
                try:
                    delattr(mod, name)
                except AttributeError:
                    pass
            else:
                setattr(mod, name, old)


def install(*assignments):
    """Permanent variant (worker processes are short lived)."""
    for mod, name, val in assignments:
        setattr(mod, name, val)


def silence():
    """Silence print()/logging of the code under test (Job.evaluate prints on every
    failure; Problem logs)."""
    import logging
    logging.disable(logging.CRITICAL)
