import argparse
import os
import sys


def main():
    ap = argparse.ArgumentParser()
    ap.add_argument('property')
    ap.add_argument('--tier', default=os.environ.get('VERIF_TIER', 'quick'), choices=['quick', 'thorough'])
    ap.add_argument('--replay')
    ap.add_argument('--only')
    ap.add_argument('--nproc', type=int, default=None)
    a = ap.parse_args()
    from . import runner
    if a.replay:
        sys.exit(runner.replay_file(a.replay))
    seed = int(os.environ.get('VERIF_SEED', '0') or 0)
    modname = 'props.%s' % a.property.lower()
    code, _ = runner.run_property(modname, a.tier, seed=seed, nproc=a.nproc, only=a.only)
    sys.exit(code)


if __name__ == '__main__':
    main()
