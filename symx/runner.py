"""Check runner: distributes harness configurations (and, for large explorations, the
frontier of decision prefixes) over worker processes, replays every solver
counterexample on the real code with real floats, applies the known-findings
protocol, writes the evidence file and returns the exit code.

exit 0  every obligation of every explored path unsat, work lists empty, vacuity
        witnesses present
exit 1  some obligation sat AND the model reproduces on the real code
        -> "VIOLATION property=<id> replay=<path>"
exit 2  anything else (unknown / timeout / unsupported operation / non-reproducing
        model / exploration not exhaustive) -> "INCONCLUSIVE", never a pass
"""
import fnmatch
import importlib
import json
import multiprocessing as mp
import os
import shutil
import sys
import tempfile
import time
import traceback

VERIF = os.path.dirname(os.path.dirname(os.path.abspath(__file__)))
REPO = os.environ.get('ARTAP_REPO', '/repo')

_PROFILE_PATHS = 4


def _worker_init(tmpdir):
    # one scratch directory per worker: Problem() names its working directory after the
    # class and the current microsecond, which collides across processes
    tmpdir = os.path.join(tmpdir, 'w%d' % os.getpid())
    os.makedirs(tmpdir, exist_ok=True)
    os.environ['TMPDIR'] = tmpdir
    tempfile.tempdir = tmpdir
    sys.stdout = open(os.devnull, 'w')
    import logging
    logging.disable(logging.CRITICAL)


def _collect_functions(store):
    root = os.path.join(REPO, 'artap') + os.sep

    def prof(frame, event, arg):
        if event == 'call':
            co = frame.f_code
            fn = co.co_filename
            if fn.startswith(root) and os.sep + 'tests' + os.sep not in fn:
                store.add((fn[len(REPO) + 1:], co.co_qualname if hasattr(co, 'co_qualname') else co.co_name,
                           co.co_firstlineno))
    return prof


def _proc_main(job, conn, scratch):
    try:
        if os.environ.get('VERIF_DUMP_AFTER_S'):
            import faulthandler
            faulthandler.dump_traceback_later(float(os.environ['VERIF_DUMP_AFTER_S']), file=open('/tmp/verif_dump_%d.txt' % os.getpid(), 'w'))
        _worker_init(scratch)
        r = _worker(job)
    except BaseException as e:      # never leave the parent without an answer
        r = {'config': job[1]['name'], 'error': '%s: %s' % (type(e).__name__, e)}
    try:
        conn.send(r)
    finally:
        conn.close()


def _worker(job):
    modname, cfg, seeds, stop_after = job
    t0 = time.time()
    out = {'config': cfg['name'], 'error': None}
    try:
        from . import core
        mod = importlib.import_module(modname)
        made = getattr(mod, cfg['task'])(cfg.get('args', {}))
        body = made
        eopts = dict(cfg.get('engine', {}))
        eng = core.Engine(config_name=cfg['name'], **eopts)
        if stop_after is not None:
            eng.bfs = True
        funcs = set()
        if seeds is None:
            # profile the first few paths to record which artap functions are entered
            prof = _collect_functions(funcs)
            eng_probe = core.Engine(config_name=cfg['name'], **dict(eopts, validate=0, dry=True))
            sys.setprofile(prof)
            try:
                eng_probe.explore(body, stop_after=_PROFILE_PATHS)
            finally:
                sys.setprofile(None)
        pending = eng.explore(body, seeds=seeds, stop_after=stop_after)
        pre = getattr(body, 'pre_stats', None)
        if pre and seeds is None:
            # exploration done while building function summaries (part of the encoding)
            for f, v in pre.items():
                if f == 'max_query':
                    eng.stats.max_query = max(eng.stats.max_query, v)
                else:
                    setattr(eng.stats, f, getattr(eng.stats, f) + v)
        # replay candidates on real floats (dedupe per check name, a few each)
        seen = {}
        cands = []
        for c in eng.candidates:
            k = c['check']
            if seen.get(k, 0) >= 3:
                continue
            seen[k] = seen.get(k, 0) + 1
            viol, exc, cc = core.run_concrete(body, c['assignment'])
            c = dict(c)
            if c['check'].startswith('uncaught-exception:'):
                want = c['check'].split(':', 1)[1]
                c['reproduced'] = exc is not None and type(exc).__name__ == want
            else:
                c['reproduced'] = c['check'] in viol
            c['replay_exception'] = repr(exc)[:300] if exc is not None else None
            c['replay_outputs'] = [(n, _plain(v)) for n, v in cc.outputs][:40]
            c['replay_violated'] = viol
            cands.append(c)
        out.update({
            'stats': eng.stats.as_dict(), 'pending': pending, 'candidates': cands,
            'n_candidates': len(eng.candidates),
            'inconclusive': eng.inconclusive[:20], 'n_inconclusive': len(eng.inconclusive),
            'samples': eng.samples, 'reached': sorted(eng.reached),
            'cut_reasons': eng.cut_reasons, 'functions': sorted(funcs),
            'validation_failures': eng.validation_failures[:5],
            'n_validation_failures': len(eng.validation_failures),
            'lemmas': eng.lemmas, 'mode': eng.mode, 'notes': eng.notes,
        })
    except BaseException as e:  # harness error
        out['error'] = '%s: %s\n%s' % (type(e).__name__, e, traceback.format_exc()[-1500:])
    out['wall'] = time.time() - t0
    return out


def _plain(v):
    from .core import SNum, SBool
    if isinstance(v, (list, tuple)):
        return [_plain(x) for x in v]
    if isinstance(v, (SNum, SBool)):
        return str(v)
    try:
        json.dumps(v)
        return v
    except TypeError:
        return repr(v)


def load_known():
    p = os.path.join(VERIF, 'known_findings.json')
    if not os.path.exists(p):
        return {'findings': [], 'fixed': []}
    with open(p) as f:
        return json.load(f)


def run_property(modname, tier, seed=0, nproc=None, only=None):
    """Run all configurations of a harness module.  Returns (exit_code, evidence)."""
    t0 = time.time()
    mod = importlib.import_module(modname)
    pid = mod.PROPERTY
    cfgs = mod.configs(tier)
    if tier == 'thorough':
        # second solver: a few discharged obligations per configuration are re-decided with cvc5
        for c in cfgs:
            c.setdefault('engine', {}).setdefault('cross_solver', 2)
    # import the code under test once, before forking (workers inherit the modules)
    import logging
    logging.disable(logging.CRITICAL)
    if hasattr(mod, 'preload'):
        mod.preload()
    else:
        import artap.operators  # noqa: F401
    if only:
        cfgs = [c for c in cfgs if fnmatch.fnmatch(c['name'], only)]
    nproc = nproc or int(os.environ.get('VERIF_NPROC', '0')) or min(16, os.cpu_count() or 4)
    scratch = tempfile.mkdtemp(prefix='artap-verif-%s-' % pid, dir=os.environ.get('VERIF_SCRATCH', '/tmp'))
    results = {c['name']: [] for c in cfgs}
    errors = []
    try:
        ctx = mp.get_context('fork')
        by_name = {c['name']: c for c in cfgs}
        known = load_known()
        budget = float(os.environ.get('VERIF_BUDGET_S', '1800' if tier == 'quick' else '7200'))
        task_timeout = float(os.environ.get('VERIF_TASK_TIMEOUT_S', '420' if tier == 'quick' else '2400'))
        stopped = None
        # one (killable) process per task: a task that exceeds its time limit -- z3 does not honour its timeout
        # everywhere, and mutated code may not terminate -- is killed and retried once, then reported
        queue = []            # (job, attempt)
        for c in sorted(cfgs, key=lambda c: -c.get('weight', 1)):       # big configurations first
            queue.append(((modname, c, None, c.get('split')), 0))
        running = []          # [proc, conn, job, attempt, t_start]
        while queue or running:
            while queue and len(running) < nproc:
                job, attempt = queue.pop(0)
                pconn, cconn = ctx.Pipe(duplex=False)
                pr = ctx.Process(target=_proc_main, args=(job, cconn, scratch))
                pr.daemon = True
                pr.start()
                cconn.close()
                running.append([pr, pconn, job, attempt, time.time()])
            still = []
            for ent in running:
                pr, conn, job, attempt, ts = ent
                r = None
                if conn.poll():
                    try:
                        r = conn.recv()
                    except EOFError:
                        r = {'config': job[1]['name'], 'error': 'worker died without a result'}
                    pr.join(5)
                elif not pr.is_alive():
                    r = {'config': job[1]['name'], 'error': 'worker exited with code %s without a result' % pr.exitcode}
                elif time.time() - ts > task_timeout:
                    pr.kill()
                    pr.join(5)
                    if attempt == 0:
                        queue.append((job, 1))
                        try:
                            conn.close()
                        except OSError:
                            pass
                        continue
                    r = {'config': job[1]['name'], 'error': 'TaskTimeout: task exceeded %ds twice' % task_timeout}
                if r is None:
                    still.append(ent)
                    continue
                try:
                    conn.close()
                except OSError:
                    pass
                results[r['config']].append(r)
                if r.get('error'):
                    errors.append((r['config'], r['error']))
                    continue
                # fail fast: a reproduced violation that is not a listed known finding decides the run
                for c in r.get('candidates', []):
                    if c.get('reproduced'):
                        key = '%s|%s' % (c['config'], c['check'])
                        if not any(f['property'] == pid and fnmatch.fnmatch(key, f['key']) for f in known.get('findings', [])):
                            stopped = stopped or 'violation found in %s: remaining work cancelled (fail fast)' % c['config']
                pend = r.get('pending') or []
                if pend:
                    cfg = by_name[r['config']]
                    pend.sort(key=len)
                    chunk = max(1, len(pend) // (nproc * 3))
                    for k in range(0, len(pend), chunk):
                        queue.append(((modname, cfg, pend[k:k + chunk], None), 0))
            running = still
            if stopped is None and time.time() - t0 > budget:
                stopped = 'wall-clock budget of %ds exceeded: remaining work cancelled' % budget
                errors.append(('*', 'TimeBudget: ' + stopped))
            if stopped is not None and os.environ.get('VERIF_FAILFAST', '1') != '0':
                for pr, conn, job, attempt, ts in running:
                    pr.kill()
                for pr, conn, job, attempt, ts in running:
                    pr.join(5)
                running, queue = [], []
                break
            if running:
                time.sleep(0.02)
    finally:
        shutil.rmtree(scratch, ignore_errors=True)

    return _report(mod, pid, tier, seed, cfgs, results, errors, time.time() - t0, nproc)


def _report(mod, pid, tier, seed, cfgs, results, errors, wall, nproc):
    import z3
    from .core import Stats
    known = load_known()
    total = {f: 0 for f in Stats.FIELDS}
    total['solver_time'] = 0.0
    total['max_query'] = 0.0
    per_config = {}
    cands, incon, samples, funcs, reached = [], [], [], set(), {}
    valfail = []
    cuts = {}
    lemmas = 0
    notes = {}
    for name, rs in results.items():
        pc = {f: 0 for f in Stats.FIELDS}
        pc['solver_time'] = 0.0
        pc['max_query'] = 0.0
        w = 0.0
        for r in rs:
            if r.get('error'):
                continue
            for f, v in r['stats'].items():
                if f == 'max_query':
                    pc[f] = max(pc[f], v)
                else:
                    pc[f] += v
            w += r['wall']
            cands.extend(r['candidates'])
            incon.extend(r['inconclusive'])
            if len(samples) < 6:
                samples.extend(r['samples'][:1])
            funcs.update(tuple(x) for x in r['functions'])
            for x in r['reached']:
                reached.setdefault(name, set()).add(x)
            valfail.extend(r['validation_failures'])
            for k, v in r['cut_reasons'].items():
                cuts[k] = cuts.get(k, 0) + v
            lemmas += r.get('lemmas', 0)
            for k, v in (r.get('notes') or {}).items():
                notes.setdefault(k, []).extend(v)
        pc['wall'] = round(w, 2)
        pc['solver_time'] = round(pc['solver_time'], 3)
        pc['max_query'] = round(pc['max_query'], 3)
        per_config[name] = pc
        for f in Stats.FIELDS:
            if f == 'max_query':
                total[f] = max(total[f], pc[f])
            else:
                total[f] += pc[f]

    # vacuity: every configuration must have reached at least one assertion
    vacuous = []
    for c in cfgs:
        if not c.get('allow_no_reach') and not reached.get(c['name']) and not any(
                r.get('error') for r in results[c['name']]):
            vacuous.append(c['name'])

    # cuts that the configuration does not declare as part of its bound
    allowed_cuts = set()
    for c in cfgs:
        allowed_cuts.update(c.get('allowed_cuts', []))
    bad_cuts = {k: v for k, v in cuts.items() if k not in allowed_cuts}

    reproduced = [c for c in cands if c.get('reproduced')]
    repro_keys = set((c['config'], c['check']) for c in reproduced)
    # an alternative witness of an obligation that already has a reproducing one is not an open question
    unreproduced = [c for c in cands if not c.get('reproduced') and not c.get('tentative')
                    and not (c.get('alternative') and (c['config'], c['check']) in repro_keys)]
    tentative_unreproduced = [c for c in cands if not c.get('reproduced') and c.get('tentative')]

    lines = []
    violations = []
    known_hits = []
    RDIR = os.environ.get('VERIF_REPLAY_DIR', os.path.join(VERIF, 'replays'))
    os.makedirs(RDIR, exist_ok=True)
    seen_keys = set()
    for c in reproduced:
        key = '%s|%s' % (c['config'], c['check'])
        kf = None
        for f in known.get('findings', []):
            if f['property'] == pid and fnmatch.fnmatch(key, f['key']):
                kf = f
                break
        if kf is not None:
            if kf['key'] not in seen_keys:
                seen_keys.add(kf['key'])
                known_hits.append(kf)
                lines.append('KNOWN-FINDING: property=%s %s' % (pid, kf['what']))
            continue
        if key in seen_keys:
            continue
        seen_keys.add(key)
        n = len(violations)
        path = os.path.join(RDIR, '%s-%d.json' % (pid, n))
        with open(path, 'w') as f:
            json.dump({'property': pid, 'module': mod.__name__, 'config': c['config'], 'check': c['check'],
                       'note': c.get('note'), 'assignment': c['assignment'],
                       'observed': c.get('replay_outputs'), 'exception': c.get('replay_exception'),
                       'command': './vcheck %s --replay %s' % (pid, path)}, f, indent=1)
        violations.append((key, path))
        lines.append('VIOLATION property=%s replay=%s' % (pid, path))
        lines.append('  config=%s check=%s %s' % (c['config'], c['check'], c.get('note') or ''))

    inconclusive_reasons = []
    if errors:
        inconclusive_reasons.append('harness errors: %s' % [(a, b.splitlines()[0]) for a, b in errors][:5])
    if incon:
        inconclusive_reasons.append('inconclusive obligations: %s' % incon[:5])
    if unreproduced:
        inconclusive_reasons.append('solver models that do not reproduce on the real code: %s' % [
            (c['config'], c['check'], c.get('note')) for c in unreproduced][:5])
    if valfail:
        inconclusive_reasons.append('translator validation mismatches: %s' % valfail[:3])
    if vacuous:
        inconclusive_reasons.append('no assertion reached (vacuous harness): %s' % vacuous)
    if bad_cuts:
        inconclusive_reasons.append('paths cut outside the declared bound: %s' % bad_cuts)
    if total['discharged'] + len(cands) < total['obligations'] - len(incon):
        pass

    if violations:
        code = 1
    elif inconclusive_reasons:
        code = 2
    else:
        code = 0

    meta = getattr(mod, 'META', {})
    evidence = {
        'property_id': pid,
        'tier': tier,
        'seed': int(seed),
        'level': 'model_checking',
        'coverage': {
            'states': int(total['paths']),
            'transitions': int(total['decisions']),
            'traces_validated_against_impl': int(total['validated']),
            'samples': samples or [{'note': 'no obligation sample recorded'}],
            'obligations': int(total['obligations']),
            'discharged': int(total['discharged']),
            'exhaustive': bool(code == 0),
            'explanation': 'bounded symbolic execution of the real functions (z3 proxies, re-execution per decision '
                           'prefix); states = feasible paths explored to the end, transitions = branch decisions, '
                           'obligations = negated-property queries, discharged = unsat answers',
            'queries': int(total['queries']),
            'solver_time_s': round(total['solver_time'], 2),
            'max_query_s': round(total['max_query'], 3),
            'forks': int(total['forks']),
            'unknown_feasibility_answers': int(total['unknown_feas']),
            'paths_cut_by_declared_unwinding': cuts,
            'lemmas_instantiated': int(lemmas),
            'reachability_witnesses': {k: sorted(v)[:12] for k, v in reached.items()},
            'vacuity_check': 'every configuration reached >=1 assertion with a satisfiable path condition' if not vacuous else 'FAILED',
            'validation_skipped_boundary_models': int(total['validation_skipped']),
            'functions_encoded': ['%s:%s:%d' % f for f in sorted(funcs)],
            'per_config': per_config,
            'bounds': meta.get('bounds', {}).get(tier, meta.get('bounds')),
            'stubs': meta.get('stubs', []),
            'undecided': meta.get('undecided', []),
            'arith': meta.get('arith', 'floats as reals; see assumptions'),
            'solver': 'z3 %s (python API)' % z3.get_version_string(),
            'workers': nproc,
            'notes': notes,
            'known_findings_hit': [k['key'] for k in known_hits],
            'inconclusive': inconclusive_reasons,
            'candidates_reproduced': len(reproduced),
            'candidates_not_reproduced': len(unreproduced),
            'refutation_attempts_on_undecided_clauses_not_reproduced': len(tentative_unreproduced),
        },
        'assumptions': meta.get('assumptions', []),
        'wall_s': round(wall, 2),
        'violations': len(violations),
    }
    EDIR = os.environ.get('VERIF_EVIDENCE_DIR', os.path.join(VERIF, 'evidence'))
    os.makedirs(EDIR, exist_ok=True)
    with open(os.path.join(EDIR, '%s.json' % pid), 'w') as f:
        json.dump(evidence, f, indent=1, default=str)

    for ln in lines:
        print(ln)
    if code == 2:
        print('INCONCLUSIVE property=%s' % pid)
        for r in inconclusive_reasons:
            print('  ' + r[:1500])
    print('%s %s: paths=%d decisions=%d obligations=%d discharged=%d validated=%d queries=%d solver=%.1fs wall=%.1fs exit=%d' % (
        pid, tier, total['paths'], total['decisions'], total['obligations'], total['discharged'],
        total['validated'], total['queries'], total['solver_time'], wall, code))
    return code, evidence


def replay_file(path):
    """Re-run one recorded counterexample on the real code with real floats."""
    from . import core
    with open(path) as f:
        rec = json.load(f)
    mod = importlib.import_module(rec['module'])
    cfg = None
    for tier in ('quick', 'thorough'):
        for c in mod.configs(tier):
            if c['name'] == rec['config']:
                cfg = c
                break
        if cfg:
            break
    if cfg is None:
        print('replay: configuration %s not found' % rec['config'])
        return 2
    import atexit
    scratch = tempfile.mkdtemp(prefix='artap-verif-replay-')
    os.environ['TMPDIR'] = scratch
    tempfile.tempdir = scratch
    atexit.register(shutil.rmtree, scratch, True)   # runs after the Problem objects' own clean-up hooks
    import logging
    logging.disable(logging.CRITICAL)
    body = getattr(mod, cfg['task'])(cfg.get('args', {}))
    viol, exc, cc = core.run_concrete(body, rec['assignment'])
    print('replay %s config=%s check=%s' % (rec['property'], rec['config'], rec['check']))
    def _f(v):
        if isinstance(v, (list, tuple)):
            from fractions import Fraction
            return float(Fraction(int(v[0]), int(v[1])))
        return v
    print('  inputs: %s' % json.dumps({k: _f(v) for k, v in rec['assignment'].items()})[:3000])
    print('  outputs: %s' % [(n, _plain(v)) for n, v in cc.outputs][:40])
    print('  violated checks: %s exception: %r' % (viol, exc))
    if rec['check'].startswith('uncaught-exception:'):
        ok = exc is not None and type(exc).__name__ == rec['check'].split(':', 1)[1]
    else:
        ok = rec['check'] in viol
    print('  reproduced: %s' % ok)
    return 1 if ok else 0
