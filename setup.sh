#!/bin/sh
# Offline environment for the checks: an overlay venv on top of /venv (which holds
# artap in editable mode, so `import artap` always reads /repo's working tree) plus
# z3-solver / crosshair-tool / cvc5 from the local wheelhouse.  Idempotent.
set -e
cd "$(dirname "$0")"
V=/verif/.venv
if [ -x "$V/bin/python" ] && "$V/bin/python" -c "import z3, artap" >/dev/null 2>&1; then
    exit 0
fi
rm -rf "$V"
/venv/bin/python -m venv "$V"
SP=$("$V/bin/python" -c "import sysconfig; print(sysconfig.get_paths()['purelib'])")
printf "import site; site.addsitedir('/venv/lib/python3.12/site-packages')\n" > "$SP/_venv_overlay.pth"
PIP_NO_INDEX=1 "$V/bin/python" -m pip install --quiet --no-index --find-links /opt/veriftools/wheels z3-solver crosshair-tool cvc5 >/dev/null 2>&1 || \
PIP_NO_INDEX=1 "$V/bin/python" -m pip install --quiet --no-index --find-links /opt/veriftools/wheels z3-solver
"$V/bin/python" -c "import z3, artap; print('verif venv ready: z3', z3.get_version_string())"
